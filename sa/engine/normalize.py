"""Semantics-preserving normalisation of the parsed tree before any rule looks at it.

Why: the rules describe roles ("the function that applies the state updates", "the accesses made under the lock") but find
them through names and statement shapes.  Three kinds of routine maintenance change names/shapes and not behaviour:

  1. a private function is renamed (all call sites updated)                    -> renamed back to the name the rules know
  2. a block is extracted into a new private helper that is called in place   -> the helper is inlined at its call sites
  3. `x = a if c else b` / `return a if c else b` instead of an if statement    -> rewritten to the if statement

All three rewrites preserve behaviour AND the point in time at which every expression is evaluated (nothing is moved across a
lock boundary, a call or an assignment), so a verdict on the normalised tree is a verdict on the file that was read.  Local
aliases (`v = obj.attr`) are deliberately NOT propagated here, because that would move the time of the read; rules resolve them
through reaching definitions instead (cfg.origin).

"Renamed" and "new" are decided against sa/baseline_inventory.json, the frozen list of private function names (with a structural
fingerprint) of the tree on which the rule instances were confirmed by reading.  The inventory is only consulted for names that
are absent from / additional to the current tree; on the confirmed tree this module does nothing except rewrite (3).
"""
from __future__ import annotations

import ast
import copy
from .errors import clone
import json
import pathlib

INVENTORY = pathlib.Path(__file__).resolve().parents[1] / 'baseline_inventory.json'
RENAME_THRESHOLD = 0.5
FUNC = (ast.FunctionDef, ast.AsyncFunctionDef)


# ----------------------------------------------------------------------------------------------------- fingerprints
def is_private(name: str) -> bool:
    return name.startswith('_') and not (name.startswith('__') and name.endswith('__'))


def fingerprint(fn: ast.AST) -> list[str]:
    toks = set()
    body = fn.body
    if body and isinstance(body[0], ast.Expr) and isinstance(body[0].value, ast.Constant) and isinstance(body[0].value.value, str):
        body = body[1:]
    n = 0
    for st in body:
        for node in ast.walk(st):
            if isinstance(node, ast.stmt):
                n += 1
            if isinstance(node, ast.Attribute):
                toks.add(f'attr:{node.attr}')
            elif isinstance(node, ast.Call) and isinstance(node.func, ast.Name):
                toks.add(f'call:{node.func.id}')
            elif isinstance(node, ast.Constant) and isinstance(node.value, str) and len(node.value) < 60:
                toks.add(f'str:{node.value}')
            elif isinstance(node, (ast.Raise, ast.Try, ast.With, ast.For, ast.While, ast.Yield)):
                toks.add(f'kind:{type(node).__name__}')
    toks.discard(f'attr:{fn.name}')
    toks.add(f'args:{len(fn.args.args)}')
    toks.add(f'size:{min(n, 40) // 4}')
    return sorted(toks)


def _jaccard(a, b) -> float:
    a, b = set(a), set(b)
    if not a and not b:
        return 1.0
    return len(a & b) / len(a | b)


def scopes_of(tree: ast.Module):
    """Yield (scope name, container node, [function defs directly in it]) for the module and each (nested) class."""
    def rec(prefix, node):
        fns = [s for s in _defs_in(node.body)]
        yield prefix, node, fns
        for s in _classes_in(node.body):
            yield from rec(f'{prefix}.{s.name}' if prefix else s.name, s)
    yield from rec('', tree)


def _defs_in(body):
    for s in body:
        if isinstance(s, FUNC):
            yield s
        elif isinstance(s, (ast.If, ast.Try)):
            for f in ('body', 'orelse', 'finalbody'):
                yield from _defs_in(getattr(s, f, []) or [])


def _classes_in(body):
    for s in body:
        if isinstance(s, ast.ClassDef):
            yield s
        elif isinstance(s, (ast.If, ast.Try)):
            for f in ('body', 'orelse', 'finalbody'):
                yield from _classes_in(getattr(s, f, []) or [])


def make_inventory(modules: dict) -> dict:
    inv = {}
    for mname, mod in sorted(modules.items()):
        for scope, _node, fns in scopes_of(mod.tree):
            entry = {f.name: fingerprint(f) for f in fns if is_private(f.name)}
            if entry:
                inv[f'{mname}:{scope}'] = entry
    return inv


def _literal(e) -> bool:
    if isinstance(e, ast.Constant):
        return True
    if isinstance(e, ast.UnaryOp) and isinstance(e.op, ast.USub) and isinstance(e.operand, ast.Constant):
        return True
    if isinstance(e, (ast.Tuple, ast.List, ast.Set)):
        return all(_literal(x) for x in e.elts)
    if isinstance(e, ast.Dict):
        return all(k is not None and _literal(k) for k in e.keys) and all(_literal(v) for v in e.values)
    return False


def _constant_defs(body):
    """{name: literal expr} for `NAME = <literal>` / `NAME: T = <literal>` statements of a module or class body that bind the
    name exactly once there."""
    seen, out = {}, {}
    for st in body:
        tgts = st.targets if isinstance(st, ast.Assign) else [st.target] if isinstance(st, (ast.AnnAssign, ast.AugAssign)) else []
        for t in tgts:
            for x in ast.walk(t):
                if isinstance(x, ast.Name):
                    seen[x.id] = seen.get(x.id, 0) + 1
        if isinstance(st, (ast.Assign, ast.AnnAssign)) and st.value is not None and len(tgts) == 1 and \
                isinstance(tgts[0], ast.Name) and _literal(st.value):
            out[tgts[0].id] = st.value
    return {k: v for k, v in out.items() if seen.get(k) == 1}


def constant_names(modules: dict) -> dict:
    """Baseline: the literal constants every module / class scope defines (names only)."""
    inv = {}
    for mname, mod in sorted(modules.items()):
        for scope, node, _fns in scopes_of(mod.tree):
            names = sorted(_constant_defs(node.body))
            if names:
                inv[f'{mname}:{scope}'] = names
    return inv


def load_constant_inventory():
    if not INVENTORY.is_file():
        return None
    return json.loads(INVENTORY.read_text()).get('constants')


def _fresh_literal(e):
    """A new node for a literal (never deepcopy: nodes carry parent links)."""
    if isinstance(e, ast.UnaryOp):
        return ast.UnaryOp(op=ast.USub(), operand=ast.Constant(value=e.operand.value))
    if isinstance(e, (ast.Tuple, ast.List, ast.Set)):
        kw = {'ctx': ast.Load()} if not isinstance(e, ast.Set) else {}
        return type(e)(elts=[_fresh_literal(x) for x in e.elts], **kw)
    if isinstance(e, ast.Dict):
        return ast.Dict(keys=[_fresh_literal(k) for k in e.keys], values=[_fresh_literal(v) for v in e.values])
    return ast.Constant(value=e.value)


class _FoldNames(ast.NodeTransformer):
    def __init__(self, mod_consts, cls_consts):
        self.m, self.c = mod_consts, cls_consts
        self.n = 0

    def visit_Name(self, node):
        if isinstance(node.ctx, ast.Load) and node.id in self.m:
            self.n += 1
            return ast.copy_location(_fresh_literal(self.m[node.id]), node)
        return node

    def visit_Attribute(self, node):
        self.generic_visit(node)
        if isinstance(node.ctx, ast.Load) and isinstance(node.value, ast.Name) and node.value.id in ('self', 'cls') and \
                node.attr in self.c:
            self.n += 1
            return ast.copy_location(_fresh_literal(self.c[node.attr]), node)
        return node


def fold_new_constants(modules: dict, baseline: dict, log: list):
    """A literal that was given a name after the baseline was confirmed (`_LOG_TEMPLATE = '...'`, `QUEUE_SIZE = 10000` at module
    or class level, bound once) is written back where it is used - the rules see the literal the confirmed tree had there."""
    for mname, mod in modules.items():
        mod_new = {}
        for scope, node, _fns in scopes_of(mod.tree):
            defs = _constant_defs(node.body)
            known = set(baseline.get(f'{mname}:{scope}', []))
            new = {k: v for k, v in defs.items() if k not in known}
            if not new:
                continue
            if node is mod.tree:
                mod_new = new
            elif isinstance(node, ast.ClassDef):
                f = _FoldNames({}, new)
                for st in node.body:
                    if isinstance(st, (ast.FunctionDef, ast.AsyncFunctionDef)):
                        f.visit(st)
                if f.n:
                    log.append(f'NORMALISED {mname}: {f.n} uses of new class constants {sorted(new)} of {node.name} folded')
        if mod_new:
            f = _FoldNames(mod_new, {})
            for st in mod.tree.body:
                if isinstance(st, (ast.Assign, ast.AnnAssign)) and any(
                        isinstance(t, ast.Name) and t.id in mod_new
                        for t in (st.targets if isinstance(st, ast.Assign) else [st.target])):
                    continue
                # functions that rebind the name locally are left alone
                for fn in [x for x in ast.walk(st) if isinstance(x, (ast.FunctionDef, ast.AsyncFunctionDef, ast.Lambda))]:
                    pass
                f.visit(st)
            if f.n:
                ast.fix_missing_locations(mod.tree)
                log.append(f'NORMALISED {mname}: {f.n} uses of new module constants {sorted(mod_new)[:6]} folded')


def _callee_key(c, cls_name):
    f = c.func
    if isinstance(f, ast.Attribute) and isinstance(f.value, ast.Name) and f.value.id in ('self', 'cls') and cls_name:
        return f'{cls_name}.{f.attr}'
    return f.id if isinstance(f, ast.Name) else f.attr if isinstance(f, ast.Attribute) else None


def _calls_with_class(tree):
    """(call, name of the innermost enclosing class or None) for every call of a module."""
    def rec(node, cls_name):
        for ch in ast.iter_child_nodes(node):
            if isinstance(ch, ast.ClassDef):
                yield from rec(ch, ch.name)
            else:
                if isinstance(ch, ast.Call):
                    yield ch, cls_name
                yield from rec(ch, cls_name)
    yield from rec(tree, None)


def keyword_callees(modules: dict) -> list:
    """Baseline: callees that the confirmed tree calls with keyword arguments somewhere - simple names, and `Class.method` for
    calls through self / cls (Class = the class the call is written in)."""
    out = set()
    for mod in modules.values():
        for c, cls_name in _calls_with_class(mod.tree):
            if any(k.arg for k in c.keywords):
                nm = _callee_key(c, cls_name)
                if nm:
                    out.add(nm)
    return sorted(out)


def load_keyword_callees():
    if not INVENTORY.is_file():
        return None
    return json.loads(INVENTORY.read_text()).get('kw_callees')


def keywords_to_positional(repo, kw_callees, log: list):
    """`Record(a=x, b=y)` / `self._helper(first=x, second=y)` -> positional arguments, for callees of this repository that the
    confirmed tree only ever calls positionally (passing by keyword is a common tidy-up; the rules read the positions)."""
    keep = set(kw_callees)
    params_of = {}
    # functional records: X = namedtuple('X', 'a b') / namedtuple('X', ['a', 'b'])
    for mod in repo.modules.values():
        for st in ast.walk(mod.tree):
            if isinstance(st, ast.Assign) and len(st.targets) == 1 and isinstance(st.targets[0], ast.Name) and \
                    isinstance(st.value, ast.Call) and unparse_name(st.value.func) == 'namedtuple' and len(st.value.args) == 2:
                spec = st.value.args[1]
                fields = spec.value.replace(',', ' ').split() if isinstance(spec, ast.Constant) and isinstance(spec.value, str) \
                    else [e.value for e in spec.elts if isinstance(e, ast.Constant)] if isinstance(spec, (ast.List, ast.Tuple)) \
                    else None
                if fields:
                    params_of[st.targets[0].id] = fields if st.targets[0].id not in params_of else None

    def params(name):
        if name in params_of:
            return params_of[name]
        res = None
        cls = [ci for q in repo.by_simple.get(name, []) for ci in [repo.classes[q]]]
        fns = [fi for fi in repo.funcs.values() if fi.name == name]
        if len(cls) == 1 and not fns:
            ci = cls[0]
            init = ci.methods.get('__init__')
            if init is not None:
                a = init.node.args
                if not a.vararg and not a.kwarg:
                    res = [x.arg for x in a.args[1:]]
            elif any(unparse_name(b) in ('NamedTuple',) for b in ci.node.bases) or \
                    any('dataclass' in unparse_name(d) for d in ci.node.decorator_list):
                res = [st.target.id for st in ci.node.body if isinstance(st, ast.AnnAssign) and isinstance(st.target, ast.Name)]
        elif len(fns) == 1 and not cls:
            a = fns[0].node.args
            if not a.vararg and not a.kwarg and not a.posonlyargs:
                res = [x.arg for x in a.args]
                if fns[0].cls is not None and res and res[0] in ('self', 'cls') and \
                        not any(unparse_name(d) == 'staticmethod' for d in fns[0].node.decorator_list):
                    res = res[1:]
        params_of[name] = res
        return res

    def self_params(mname, cls_name, meth):
        q = next((q for q in repo.by_simple.get(cls_name, []) if q.startswith(mname + '.')), None)
        fi = repo.resolve_method(q, meth) if q else None
        if fi is None:
            return None
        a = fi.node.args
        if a.vararg or a.kwarg or a.posonlyargs:
            return None
        res = [x.arg for x in a.args]
        if res and res[0] in ('self', 'cls') and not any(unparse_name(d) == 'staticmethod' for d in fi.node.decorator_list):
            res = res[1:]
        return res

    n = 0
    for mname, mod in repo.modules.items():
        for c, cls_name in _calls_with_class(mod.tree):
            if not (c.keywords and all(k.arg for k in c.keywords)):
                continue
            if any(isinstance(a, ast.Starred) for a in c.args):
                continue
            key = _callee_key(c, cls_name)
            if not key or key in keep:
                continue
            if '.' in key:
                ps = self_params(mname, cls_name, c.func.attr) or (params(c.func.attr) if c.func.attr not in keep else None)
            else:
                ps = params(key)
            if not ps:
                continue
            kws = {k.arg: k for k in c.keywords}
            if not set(kws) <= set(ps):
                continue
            i = len(c.args)
            moved = 0
            while i < len(ps) and ps[i] in kws:
                c.args.append(kws.pop(ps[i]).value)
                i += 1
                moved += 1
            if moved:
                c.keywords = [k for k in c.keywords if k.arg in kws]
                n += 1
    if n:
        log.append(f'NORMALISED {n} calls of repository callees: keyword arguments written positionally')


def unparse_name(e) -> str:
    return e.id if isinstance(e, ast.Name) else e.attr if isinstance(e, ast.Attribute) else \
        unparse_name(e.func) if isinstance(e, ast.Call) else ''


class _RenameLocal(ast.NodeTransformer):
    def __init__(self, mapping):
        self.mapping = mapping

    def visit_Name(self, node):
        if node.id in self.mapping:
            return ast.copy_location(ast.Name(id=self.mapping[node.id], ctx=node.ctx), node)
        return node


def expand_local_predicates(modules: dict, log: list):
    """`def _p(x): <assignments>; return <cond>` nested in a function that ends with `return [not] any/all(_p(v) for v in it)`
    -> the explicit loop with early return that the quantifier abbreviates (the closure is dropped)."""
    for mname, mod in modules.items():
        for fn in [x for x in ast.walk(mod.tree) if isinstance(x, (ast.FunctionDef, ast.AsyncFunctionDef))]:
            preds = {st.name: st for st in fn.body if isinstance(st, ast.FunctionDef) and len(st.args.args) == 1 and
                     not st.decorator_list and st.body and isinstance(st.body[-1], ast.Return) and st.body[-1].value is not None
                     and all(isinstance(b, (ast.Assign, ast.Expr)) and not (isinstance(b, ast.Expr) and not isinstance(b.value, ast.Constant))
                             for b in st.body[:-1])}
            if not preds:
                continue
            new_body, used = [], set()
            for st in fn.body:
                done = False
                if isinstance(st, ast.Return) and st.value is not None:
                    v, neg = st.value, False
                    if isinstance(v, ast.UnaryOp) and isinstance(v.op, ast.Not):
                        v, neg = v.operand, True
                    if isinstance(v, ast.Call) and isinstance(v.func, ast.Name) and v.func.id in ('any', 'all') and \
                            len(v.args) == 1 and isinstance(v.args[0], ast.GeneratorExp) and len(v.args[0].generators) == 1:
                        ge = v.args[0]
                        gen = ge.generators[0]
                        if isinstance(ge.elt, ast.Call) and isinstance(ge.elt.func, ast.Name) and ge.elt.func.id in preds and \
                                len(ge.elt.args) == 1 and isinstance(ge.elt.args[0], ast.Name) and \
                                isinstance(gen.target, ast.Name) and ge.elt.args[0].id == gen.target.id and not gen.ifs:
                            p = preds[ge.elt.func.id]
                            ren = _RenameLocal({p.args.args[0].arg: gen.target.id})
                            body = [ren.visit(clone(b)) for b in p.body[:-1] if not isinstance(b, ast.Expr)]
                            cond = ren.visit(clone(p.body[-1].value))
                            is_any = v.func.id == 'any'
                            test = cond if is_any else ast.UnaryOp(op=ast.Not(), operand=cond)
                            hit = (is_any != neg)       # value returned when the deciding element is found
                            body.append(ast.If(test=test, body=[ast.Return(value=ast.Constant(value=hit))], orelse=[]))
                            loop = ast.For(target=clone(gen.target), iter=clone(gen.iter), body=body, orelse=[])
                            new_body += [ast.copy_location(loop, st), ast.copy_location(ast.Return(value=ast.Constant(value=not hit)), st)]
                            used.add(p.name)
                            done = True
                if not done:
                    new_body.append(st)
            if used:
                others = {n.id for st in new_body if not (isinstance(st, ast.FunctionDef) and st.name in used)
                          for n in ast.walk(st) if isinstance(n, ast.Name)}
                fn.body = [st for st in new_body if not (isinstance(st, ast.FunctionDef) and st.name in used and st.name not in others)]
                ast.fix_missing_locations(fn)
                log.append(f'NORMALISED {mname}:{fn.name}: quantifier over the local predicate(s) {sorted(used)} written as a loop')


def load_inventory():
    if not INVENTORY.is_file():
        return None
    return json.loads(INVENTORY.read_text())['scopes']


# ----------------------------------------------------------------------------------------------------- 1. renames
def plan_renames(modules: dict, inv: dict):
    """-> ({(module, scope, new): old}, log).  Greedy best match between missing and additional private names of a scope."""
    pairs = []
    present = {}
    for mname, mod in modules.items():
        for scope, _node, fns in scopes_of(mod.tree):
            key = f'{mname}:{scope}'
            cur = {f.name: f for f in fns if is_private(f.name)}
            present[key] = cur
            base = inv.get(key)
            if base is None:
                continue
            missing = [n for n in base if n not in cur]
            added = [n for n in cur if n not in base]
            for old in missing:
                for new in added:
                    pairs.append((_jaccard(base[old], fingerprint(cur[new])), key, old, new))
    pairs.sort(key=lambda p: (-p[0], p[1], p[2], p[3]))
    mapping = {}
    used_old, used_new = set(), set()
    for score, key, old, new in pairs:
        if score < RENAME_THRESHOLD:
            break
        if (key, old) in used_old or (key, new) in used_new:
            continue
        mapping[(key, new)] = old
        used_old.add((key, old))
        used_new.add((key, new))
    # overrides renamed consistently with an already matched pair
    agreed = {}
    for (_key, new), old in mapping.items():
        agreed.setdefault(new, set()).add(old)
    for score, key, old, new in pairs:
        if (key, old) in used_old or (key, new) in used_new:
            continue
        if agreed.get(new) == {old}:
            mapping[(key, new)] = old
            used_old.add((key, old))
            used_new.add((key, new))
    return mapping


def apply_renames(modules: dict, mapping: dict, log: list):
    if not mapping:
        return
    new2old = {}
    for (_key, new), old in mapping.items():
        new2old.setdefault(new, set()).add(old)
    # a new name that is also defined somewhere without being part of a rename is ambiguous: leave everything of it alone
    for mname, mod in modules.items():
        for scope, _node, fns in scopes_of(mod.tree):
            for f in fns:
                if f.name in new2old and (f'{mname}:{scope}', f.name) not in mapping:
                    new2old[f.name].add(None)
    safe = {new: next(iter(olds)) for new, olds in new2old.items() if len(olds) == 1 and None not in olds}
    for mname, mod in modules.items():
        for node in ast.walk(mod.tree):
            if isinstance(node, FUNC) and node.name in safe:
                log.append(f'rename {mname}: {node.name} -> {safe[node.name]} (matched by structure against the confirmed tree)')
                node.name = safe[node.name]
            elif isinstance(node, ast.Attribute) and node.attr in safe:
                node.attr = safe[node.attr]
            elif isinstance(node, ast.Name) and node.id in safe:
                node.id = safe[node.id]
            elif isinstance(node, ast.alias) and node.name in safe:
                node.name = safe[node.name]
            elif isinstance(node, ast.keyword) and node.arg in safe:
                pass


# ----------------------------------------------------------------------------------------------------- 3. if-expressions
class _IfExpDesugar(ast.NodeTransformer):
    def _split(self, st, get, make):
        v = get(st)
        if not isinstance(v, ast.IfExp):
            return st
        a = ast.copy_location(make(v.body), st)
        b = ast.copy_location(make(v.orelse), st)
        node = ast.If(test=v.test, body=[self._again(a)], orelse=[self._again(b)])
        return ast.copy_location(node, st)

    def _again(self, st):
        r = self.visit(st)
        return r

    def visit_Assign(self, st):  # noqa: N802
        return self._split(st, lambda s: s.value,
                           lambda v: ast.Assign(targets=clone(st.targets), value=v, type_comment=None))

    def visit_AnnAssign(self, st):  # noqa: N802
        if st.value is None or not isinstance(st.target, ast.Name):
            return st
        return self._split(st, lambda s: s.value, lambda v: ast.Assign(targets=[clone(st.target)], value=v,
                                                                         type_comment=None))

    def visit_Return(self, st):  # noqa: N802
        return self._split(st, lambda s: s.value, lambda v: ast.Return(value=v))

    def visit_Expr(self, st):  # noqa: N802
        # `f(.., A if c else B, ..)` as a statement, f an attribute chain and the other arguments free of effects:
        # `if c: f(.., A, ..) else: f(.., B, ..)`
        c = st.value
        if not (isinstance(c, ast.Call) and _pure(c.func)):
            return st
        slots = [('a', i) for i, a in enumerate(c.args) if isinstance(a, ast.IfExp)] + \
                [('k', i) for i, k in enumerate(c.keywords) if isinstance(k.value, ast.IfExp)]
        others = [a for a in c.args if not isinstance(a, ast.IfExp)] + [k.value for k in c.keywords if not isinstance(k.value, ast.IfExp)]
        if len(slots) != 1 or any(isinstance(a, ast.Starred) for a in c.args) or any(k.arg is None for k in c.keywords) or \
                not all(_side_effect_free(o) for o in others):
            return st
        kind, i = slots[0]
        ife = c.args[i] if kind == 'a' else c.keywords[i].value

        def variant(v):
            nc = clone(c)
            if kind == 'a':
                nc.args[i] = v
            else:
                nc.keywords[i].value = v
            return ast.copy_location(ast.Expr(value=nc), st)
        node = ast.If(test=ife.test, body=[self._again(variant(ife.body))], orelse=[self._again(variant(ife.orelse))])
        return ast.copy_location(node, st)

    def visit_Lambda(self, node):  # noqa: N802
        return node


class _PlainAssign(ast.NodeTransformer):
    """`x: T = v` inside a function body -> `x = v` (a local annotation has no run-time effect); `x: T` alone -> dropped."""

    def visit_AnnAssign(self, st):  # noqa: N802
        if st.value is None:
            return ast.copy_location(ast.Pass(), st) if isinstance(st.target, ast.Name) else st
        return ast.copy_location(ast.Assign(targets=[st.target], value=st.value, type_comment=None), st)

    def visit_ClassDef(self, node):  # noqa: N802
        return node   # class-level annotations declare fields (dataclasses, descriptors): left alone

    def visit_Lambda(self, node):  # noqa: N802
        return node


def _acquire_release_to_with(body):
    """`L.acquire(); try: BODY finally: L.release()`  ->  `with L: BODY`  (recursively in nested blocks)."""
    i = 0
    changed = False
    while i < len(body):
        st = body[i]
        nxt = body[i + 1] if i + 1 < len(body) else None
        if isinstance(st, ast.Expr) and isinstance(st.value, ast.Call) and isinstance(st.value.func, ast.Attribute) and \
                st.value.func.attr == 'acquire' and not st.value.args and not st.value.keywords and \
                isinstance(nxt, ast.Try) and not nxt.handlers and not nxt.orelse and len(nxt.finalbody) == 1:
            fin = nxt.finalbody[0]
            lock = st.value.func.value
            if isinstance(fin, ast.Expr) and isinstance(fin.value, ast.Call) and isinstance(fin.value.func, ast.Attribute) and \
                    fin.value.func.attr == 'release' and not fin.value.args and \
                    ast.unparse(fin.value.func.value) == ast.unparse(lock):
                w = ast.With(items=[ast.withitem(context_expr=lock, optional_vars=None)], body=nxt.body, type_comment=None)
                body[i:i + 2] = [ast.copy_location(w, st)]
                changed = True
                continue
        for field in ('body', 'orelse', 'finalbody'):
            sub = getattr(st, field, None)
            if isinstance(sub, list) and sub and isinstance(sub[0], ast.stmt) and not isinstance(st, (*FUNC, ast.ClassDef)):
                changed = _acquire_release_to_with(sub) or changed
        for h in getattr(st, 'handlers', []) or []:
            changed = _acquire_release_to_with(h.body) or changed
        i += 1
    return changed


def _exitstack_to_with(body):
    """`with ExitStack() as s: s.enter_context(A); s.enter_context(B); BODY`  ->  `with A: with B: BODY` when s is used for
    nothing else (same enter order, same exit order, same exception semantics)."""
    changed = False
    for i, st in enumerate(body):
        if isinstance(st, ast.With) and len(st.items) == 1 and isinstance(st.items[0].optional_vars, ast.Name) and \
                isinstance(st.items[0].context_expr, ast.Call) and not st.items[0].context_expr.args and \
                ast.unparse(st.items[0].context_expr.func).split('.')[-1] == 'ExitStack':
            name = st.items[0].optional_vars.id
            entered = []
            k = 0
            while k < len(st.body):
                b = st.body[k]
                if isinstance(b, ast.Expr) and isinstance(b.value, ast.Call) and isinstance(b.value.func, ast.Attribute) and \
                        b.value.func.attr == 'enter_context' and isinstance(b.value.func.value, ast.Name) and \
                        b.value.func.value.id == name and len(b.value.args) == 1 and not b.value.keywords:
                    entered.append(b.value.args[0])
                    k += 1
                else:
                    break
            rest = st.body[k:]
            used = any(isinstance(n, ast.Name) and n.id == name for r in rest for n in ast.walk(r))
            if entered and rest and not used:
                inner = rest
                for ctxe in reversed(entered):
                    w = ast.With(items=[ast.withitem(context_expr=ctxe, optional_vars=None)], body=inner, type_comment=None)
                    inner = [ast.copy_location(w, st)]
                body[i] = inner[0]
                st = body[i]
                changed = True
        for field in ('body', 'orelse', 'finalbody'):
            sub = getattr(st, field, None)
            if isinstance(sub, list) and sub and isinstance(sub[0], ast.stmt) and not isinstance(st, (*FUNC, ast.ClassDef)):
                changed = _exitstack_to_with(sub) or changed
        for h in getattr(st, 'handlers', []) or []:
            changed = _exitstack_to_with(h.body) or changed
    return changed


def _first_evaluated_walrus(e):
    """The NamedExpr that is evaluated before anything else in e can have an effect (left-most position), else None."""
    while True:
        if isinstance(e, ast.NamedExpr):
            return e if isinstance(e.target, ast.Name) and not any(isinstance(x, ast.NamedExpr) for x in ast.walk(e.value)) \
                else None
        if isinstance(e, ast.Compare):
            e = e.left
        elif isinstance(e, ast.UnaryOp):
            e = e.operand
        elif isinstance(e, ast.BoolOp):
            e = e.values[0]
        elif isinstance(e, (ast.Attribute, ast.Subscript)):
            e = e.value
        else:
            return None


def _hoist_walrus(body):
    """`if (x := E) is None:` -> `x = E` + `if x is None:` (an `elif` becomes `else:` + the two statements): the assignment
    expression in the left-most position of an if-test is evaluated exactly when the if statement is reached."""
    i = 0
    while i < len(body):
        st = body[i]
        if isinstance(st, ast.If):
            w = _first_evaluated_walrus(st.test)
            if w is not None:
                assign = ast.copy_location(ast.Assign(targets=[ast.Name(id=w.target.id, ctx=ast.Store())], value=w.value,
                                                      type_comment=None), st)
                name = ast.copy_location(ast.Name(id=w.target.id, ctx=ast.Load()), w)
                if st.test is w:
                    st.test = name
                else:
                    for parent in ast.walk(st.test):
                        for fld, val in ast.iter_fields(parent):
                            if val is w:
                                setattr(parent, fld, name)
                            elif isinstance(val, list) and any(v is w for v in val):
                                setattr(parent, fld, [name if v is w else v for v in val])
                body.insert(i, assign)
                continue   # look at the same if again (a second walrus is rare but possible)
        for field in ('body', 'orelse', 'finalbody'):
            sub = getattr(st, field, None)
            if isinstance(sub, list) and sub and isinstance(sub[0], ast.stmt) and not isinstance(st, (*FUNC, ast.ClassDef)):
                _hoist_walrus(sub)
        for h in getattr(st, 'handlers', []) or []:
            _hoist_walrus(h.body)
        i += 1


def _ends_flow(stmts) -> bool:
    if not stmts:
        return False
    last = stmts[-1]
    if isinstance(last, (ast.Return, ast.Raise, ast.Continue, ast.Break)):
        return True
    if isinstance(last, ast.If):
        return bool(last.orelse) and _ends_flow(last.body) and _ends_flow(last.orelse)
    if isinstance(last, ast.With):
        return _ends_flow(last.body)
    return False


def _push_return(stmts, ret, depth=0):
    """Append `return <name>` to every open end of the statement list (into the branches of a trailing if / with / try)."""
    if _ends_flow(stmts):
        return
    last = stmts[-1] if stmts else None
    if depth < 6 and isinstance(last, ast.If):
        _push_return(last.body, ret, depth + 1)
        if last.orelse:
            _push_return(last.orelse, ret, depth + 1)
        else:
            last.orelse = [clone(ret)]
        return
    if depth < 6 and isinstance(last, ast.With):
        _push_return(last.body, ret, depth + 1)
        return
    if depth < 6 and isinstance(last, ast.Try) and not last.finalbody:
        _push_return(last.orelse if last.orelse else last.body, ret, depth + 1)
        for h in last.handlers:
            _push_return(h.body, ret, depth + 1)
        return
    stmts.append(clone(ret))


def _single_exit_to_returns(fn):
    """A function that ends with `return <result variable>` after an if / with / try statement that only chooses the value of
    that variable: the return is copied to the end of every branch (tail duplication; the value of a local cannot change
    between the end of a branch and the return that follows the statement).  Rules then see the multi-exit form."""
    body = fn.body
    if len(body) < 2 or not isinstance(body[-1], ast.Return) or not isinstance(body[-1].value, ast.Name):
        return False
    prev = body[-2]
    if not isinstance(prev, (ast.If, ast.With, ast.Try)) or (isinstance(prev, ast.Try) and prev.finalbody):
        return False
    name = body[-1].value.id
    # only when the statement in front assigns the variable somewhere (otherwise there is nothing to gain)
    if not any(isinstance(n, ast.Name) and n.id == name and isinstance(n.ctx, ast.Store) for n in ast.walk(prev)):
        return False
    ret = body.pop()
    _push_return(body, ret)
    return True


def desugar_ifexp(modules: dict):
    for mod in modules.values():
        for node in ast.walk(mod.tree):
            if isinstance(node, FUNC):
                _PlainAssign().generic_visit(node)
                _IfExpDesugar().generic_visit(node)
                _acquire_release_to_with(node.body)
                _exitstack_to_with(node.body)
                _hoist_walrus(node.body)
                _single_exit_to_returns(node)
        ast.fix_missing_locations(mod.tree)


# ----------------------------------------------------------------------------------------------------- 4. table-driven loops
def _is_const(y) -> bool:
    return isinstance(y, ast.Constant) and (y.value is None or isinstance(y.value, (str, int, float, bool)))


def _const_rows(e, module_consts, records=None):
    """([(c1, c2..), ..], fields) for a literal tuple/list of constants, of equally long tuples of constants or of calls of one
    NamedTuple class of this module with constant arguments (directly, or through a module-level / class-level name bound once to
    such a literal); fields is the field list of that NamedTuple class, else None.  (None, None) when e is no such table."""
    key = ast.unparse(e) if isinstance(e, (ast.Name, ast.Attribute)) else None
    if key is not None and key in module_consts:
        e = module_consts[key]
    if not isinstance(e, (ast.Tuple, ast.List)) or not e.elts or len(e.elts) > 16:
        return None, None
    rows = []
    fields = None
    for x in e.elts:
        if isinstance(x, ast.Constant) and isinstance(x.value, (str, int, float)) and not isinstance(x.value, bool):
            rows.append((x,))
        elif isinstance(x, ast.Name):
            rows.append((x,))   # a local / parameter: allowed when the loop body does not assign it (checked by the caller)
        elif isinstance(x, (ast.Tuple, ast.List)) and x.elts and all(_is_const(y) or isinstance(y, ast.Name) for y in x.elts):
            rows.append(tuple(x.elts))
        elif isinstance(x, ast.Call) and isinstance(x.func, ast.Name) and records and x.func.id in records and \
                all(_is_const(a) for a in x.args) and all(k.arg and _is_const(k.value) for k in x.keywords):
            f = records[x.func.id]
            if fields not in (None, f):
                return None, None
            fields = f
            vals = dict(zip(f, x.args))
            for k in x.keywords:
                vals[k.arg] = k.value
            if set(vals) != set(f):
                return None, None
            rows.append(tuple(vals[n] for n in f))
        else:
            return None, None
    if len({len(r) for r in rows}) != 1 or (fields is not None and len(rows) != len(e.elts)):
        return None, None
    return rows, fields


def _continue_to_guard(body):
    """[.., `if c: continue`, REST..] -> [.., `if not c: REST`]  for `continue` statements that are the whole body of a top-level
    `if` of the loop body; None when a continue sits anywhere else."""
    out = []
    for i, b in enumerate(body):
        if isinstance(b, ast.If) and len(b.body) == 1 and isinstance(b.body[0], ast.Continue) and not b.orelse:
            rest = _continue_to_guard(body[i + 1:])
            if rest is None:
                return None
            if rest:
                neg = ast.UnaryOp(op=ast.Not(), operand=b.test)
                out.append(ast.copy_location(ast.If(test=ast.copy_location(neg, b.test), body=rest, orelse=[]), b))
            return out
        if any(isinstance(n, ast.Continue) for n in ast.walk(b)):
            return None
        out.append(b)
    return out


def _const_truth(e):
    """True / False for a test over constants only (`'x' is not None`, `None is None`, a constant), else None."""
    if isinstance(e, ast.Constant):
        return bool(e.value)
    if isinstance(e, ast.UnaryOp) and isinstance(e.op, ast.Not):
        v = _const_truth(e.operand)
        return None if v is None else not v
    if isinstance(e, ast.Compare) and len(e.ops) == 1 and isinstance(e.left, ast.Constant) and \
            isinstance(e.comparators[0], ast.Constant):
        a, b = e.left.value, e.comparators[0].value
        op = e.ops[0]
        if isinstance(op, (ast.Is, ast.IsNot)) and (a is None or b is None):
            r = (a is None) and (b is None)
            return r if isinstance(op, ast.Is) else not r
        if isinstance(op, (ast.Eq, ast.NotEq)):
            return (a == b) if isinstance(op, ast.Eq) else (a != b)
    return None


def _fold_constant_tests(stmts):
    """`if <test over constants>:` left behind by the substitution of a table row is replaced by the branch that runs."""
    out = []
    for st in stmts:
        for field in ('body', 'orelse', 'finalbody'):
            sub = getattr(st, field, None)
            if isinstance(sub, list) and sub and isinstance(sub[0], ast.stmt) and not isinstance(st, (*FUNC, ast.ClassDef)):
                setattr(st, field, _fold_constant_tests(sub) or ([ast.Pass()] if field == 'body' else []))
        if isinstance(st, ast.If):
            v = _const_truth(st.test)
            if v is not None:
                out.extend(st.body if v else st.orelse)
                continue
        out.append(st)
    return out


class _FieldSubst(ast.NodeTransformer):
    """row.field -> the constant of that field (row is the loop variable over a table of NamedTuple rows)"""

    def __init__(self, name, values):
        self.name, self.values = name, values

    def visit_Attribute(self, n):  # noqa: N802
        if isinstance(n.value, ast.Name) and n.value.id == self.name and n.attr in self.values and isinstance(n.ctx, ast.Load):
            return ast.copy_location(clone(self.values[n.attr]), n)
        return self.generic_visit(n)


class _Unroll(ast.NodeTransformer):
    def __init__(self, module_consts, log, where, records=None):
        self.consts = module_consts
        self.log = log
        self.where = where
        self.records = records or {}

    def visit_For(self, st):  # noqa: N802
        self.generic_visit(st)
        rows, fields = _const_rows(st.iter, self.consts, self.records)
        if rows is None or st.orelse:
            return st
        if isinstance(st.target, ast.Name):
            names = [st.target.id]
            single = True
        elif isinstance(st.target, ast.Tuple) and all(isinstance(t, ast.Name) for t in st.target.elts):
            names = [t.id for t in st.target.elts]
            single = False
        else:
            return st
        width = len(rows[0])
        if not single and width != len(names):
            return st
        if fields is not None and single:
            # the loop variable may only be used as row.<field>
            uses = [n for b in st.body for n in ast.walk(b) if isinstance(n, ast.Name) and n.id == names[0]]
            attr_uses = [n for b in st.body for n in ast.walk(b) if isinstance(n, ast.Attribute) and
                         isinstance(n.value, ast.Name) and n.value.id == names[0] and n.attr in fields]
            if len(uses) != len(attr_uses):
                return st
        row_names = {y.id for r in rows for y in r if isinstance(y, ast.Name)}
        if row_names:
            if st.iter is not None and isinstance(st.iter, (ast.Name, ast.Attribute)):
                return st   # a module constant must consist of literals only
            if any(isinstance(n, ast.Name) and n.id in row_names and isinstance(n.ctx, (ast.Store, ast.Del))
                   for b in st.body for n in ast.walk(b)):
                return st
            if any(isinstance(n, (*FUNC, ast.Lambda)) for b in st.body for n in ast.walk(b)):
                return st   # a closure would capture the loop variable
        if any(isinstance(n, ast.Continue) for n in ast.walk(st)):
            body = _continue_to_guard(st.body)
            if body is None:
                return st
            st = ast.copy_location(ast.For(target=st.target, iter=st.iter, body=body, orelse=[], type_comment=None), st)
        for n in ast.walk(st):
            if n is not st and isinstance(n, (ast.Break, ast.Continue)):
                return st
            if isinstance(n, ast.Name) and n.id in names and isinstance(n.ctx, (ast.Store, ast.Del)) and n is not st.target \
                    and not any(n is t for t in ast.walk(st.target)):
                return st
        out = []
        for row in rows:
            for b in st.body:
                if fields is not None and single:
                    out.append(_FieldSubst(names[0], dict(zip(fields, row))).visit(clone(b)))
                    continue
                if single and width != 1:
                    mapping = {names[0]: ast.Tuple(elts=list(row), ctx=ast.Load())}
                else:
                    mapping = dict(zip(names, row))
                out.append(_Subst(mapping).visit(clone(b)))
        self.log.append(f'unroll {self.where}: loop over {len(rows)} constant rows at line {st.lineno}')
        return _fold_constant_tests(out)


class _QuantifierOverConstants(ast.NodeTransformer):
    """any(E(v) for v in (c1, c2)) -> E(c1) or E(c2) ; all(..) -> and   (constant tuple / list of <= 6 literals, no filter)"""

    def visit_Call(self, node):  # noqa: N802
        self.generic_visit(node)
        if isinstance(node.func, ast.Name) and node.func.id in ('any', 'all') and len(node.args) == 1 and not node.keywords \
                and isinstance(node.args[0], (ast.GeneratorExp, ast.ListComp)) and len(node.args[0].generators) == 1:
            gen = node.args[0].generators[0]
            if isinstance(gen.target, ast.Name) and not gen.ifs and isinstance(gen.iter, (ast.Tuple, ast.List)) and \
                    1 < len(gen.iter.elts) <= 6 and all(isinstance(x, ast.Constant) for x in gen.iter.elts):
                vals = [_Subst({gen.target.id: c}).visit(clone(node.args[0].elt)) for c in gen.iter.elts]
                op = ast.Or() if node.func.id == 'any' else ast.And()
                return ast.copy_location(ast.BoolOp(op=op, values=vals), node)
        return node


class _LiteralAttr(ast.NodeTransformer):
    """getattr(x, 'name') -> x.name ; setattr(x, 'name', v) as a statement -> x.name = v"""

    def visit_Call(self, node):  # noqa: N802
        self.generic_visit(node)
        if isinstance(node.func, ast.Name) and node.func.id == 'getattr' and len(node.args) == 2 and not node.keywords and \
                isinstance(node.args[1], ast.Constant) and isinstance(node.args[1].value, str) and node.args[1].value.isidentifier():
            return ast.copy_location(ast.Attribute(value=node.args[0], attr=node.args[1].value, ctx=ast.Load()), node)
        return node

    def visit_Expr(self, st):  # noqa: N802
        self.generic_visit(st)
        c = st.value
        if isinstance(c, ast.Call) and isinstance(c.func, ast.Name) and c.func.id == 'setattr' and len(c.args) == 3 and \
                not c.keywords and isinstance(c.args[1], ast.Constant) and isinstance(c.args[1].value, str) and \
                c.args[1].value.isidentifier():
            tgt = ast.Attribute(value=c.args[0], attr=c.args[1].value, ctx=ast.Store())
            return ast.copy_location(ast.Assign(targets=[tgt], value=c.args[2], type_comment=None), st)
        return st


def unroll_constant_loops(modules: dict, log: list):
    """`for a, b in CONSTANT_TABLE: ... getattr(x, a) ... setattr(self, b, ..)` is the table-driven spelling of a sequence of
    plain statements; it is rewritten to that sequence (the loop has no break / continue / else and does not assign its own
    variables), and getattr / setattr with a literal name become attribute access / assignment."""
    for mname, mod in modules.items():
        consts = _once_bound(mod.tree.body)
        records = {}
        for st in mod.tree.body:
            if isinstance(st, ast.ClassDef) and any(ast.unparse(b).split('.')[-1] == 'NamedTuple' for b in st.bases):
                records[st.name] = [x.target.id for x in st.body if isinstance(x, ast.AnnAssign) and isinstance(x.target, ast.Name)]
        for k, v in consts.items():
            if isinstance(v, ast.Name) and v.id in records:
                records[k] = records[v.id]     # `_Row = _LongRowClassName`
        # attributes that are assigned through an instance / class anywhere in the module are not constants
        attr_stores = {n.attr for n in ast.walk(mod.tree) if isinstance(n, ast.Attribute) and isinstance(n.ctx, (ast.Store, ast.Del))}

        def handle(node, scope_consts):
            _QuantifierOverConstants().visit(node)
            before = len(log)
            new_body = []
            for st in node.body:
                r = _Unroll(scope_consts, log, f'{mname}.{node.name}', records).visit(st)
                new_body.extend(r if isinstance(r, list) else [r])
            node.body = new_body
            if len(log) > before:
                _LiteralAttr().visit(node)

        def rec(body, scope_consts):
            for st in body:
                if isinstance(st, ast.ClassDef):
                    cc = dict(scope_consts)
                    for k, v in _once_bound(st.body).items():
                        if k not in attr_stores and is_private(k):   # public class attributes are API (may be overridden)
                            for owner in ('self', 'cls', st.name):
                                cc[f'{owner}.{k}'] = v
                    rec(st.body, cc)
                elif isinstance(st, FUNC):
                    handle(st, scope_consts)
                    rec(st.body, scope_consts)
        rec(mod.tree.body, consts)
        ast.fix_missing_locations(mod.tree)


def _once_bound(body) -> dict:
    """name -> value for the names a module / class body binds exactly once by a plain (annotated) assignment"""
    consts, seen = {}, {}
    for st in body:
        if isinstance(st, ast.Assign) and len(st.targets) == 1 and isinstance(st.targets[0], ast.Name):
            consts[st.targets[0].id] = st.value
        elif isinstance(st, ast.AnnAssign) and isinstance(st.target, ast.Name) and st.value is not None:
            consts[st.target.id] = st.value
        for t in (st.targets if isinstance(st, ast.Assign) else [st.target] if isinstance(st, (ast.AnnAssign, ast.AugAssign)) else []):
            if isinstance(t, ast.Name):
                seen[t.id] = seen.get(t.id, 0) + 1
    return {k: v for k, v in consts.items() if seen.get(k) == 1}


def _side_effect_free(e) -> bool:
    """attribute chains, constants and and/or/not/comparisons of them (reading them twice gives the same value)"""
    if isinstance(e, ast.BoolOp):
        return all(_side_effect_free(v) for v in e.values)
    if isinstance(e, ast.UnaryOp) and isinstance(e.op, ast.Not):
        return _side_effect_free(e.operand)
    if isinstance(e, ast.Compare):
        return _side_effect_free(e.left) and all(_side_effect_free(c) for c in e.comparators)
    return _pure(e)


def project_records(modules: dict, log: list):
    """`t = Rec(a, b, c)` with Rec a NamedTuple class of the module, t bound once in the function and used only as `t.<field>`
    ->  one local per field (`t__f1 = a; t__f2 = b; ...` in argument order), `t.f1` -> `t__f1`.  A record that only groups
    values inside one function is the same as separate locals."""
    for mname, mod in modules.items():
        records = {}
        for st in mod.tree.body:
            if isinstance(st, ast.ClassDef) and any(ast.unparse(b).split('.')[-1] == 'NamedTuple' for b in st.bases):
                records[st.name] = [x.target.id for x in st.body if isinstance(x, ast.AnnAssign) and isinstance(x.target, ast.Name)]
        if not records:
            continue
        for fn in ast.walk(mod.tree):
            if not isinstance(fn, FUNC):
                continue
            for st in [n for n in _walk_no_nested(fn) if isinstance(n, ast.Assign)]:
                if not (len(st.targets) == 1 and isinstance(st.targets[0], ast.Name) and isinstance(st.value, ast.Call) and
                        isinstance(st.value.func, ast.Name) and st.value.func.id in records):
                    continue
                t, fields, call = st.targets[0].id, records[st.value.func.id], st.value
                stores = [n for n in ast.walk(fn) if isinstance(n, ast.Name) and n.id == t and not isinstance(n.ctx, ast.Load)]
                loads = [n for n in ast.walk(fn) if isinstance(n, ast.Name) and n.id == t and isinstance(n.ctx, ast.Load)]
                proj = [n for n in ast.walk(fn) if isinstance(n, ast.Attribute) and isinstance(n.value, ast.Name) and
                        n.value.id == t and n.attr in fields and isinstance(n.ctx, ast.Load)]
                if len(stores) != 1 or len(loads) != len(proj) or any(isinstance(a, ast.Starred) for a in call.args) or \
                        any(k.arg is None for k in call.keywords) or len(call.args) + len(call.keywords) != len(fields):
                    continue
                if any(isinstance(n, (*FUNC, ast.Lambda)) and n is not fn and any(
                        isinstance(x, ast.Name) and x.id == t for x in ast.walk(n)) for n in ast.walk(fn)):
                    continue
                pairs = list(zip(fields, call.args)) + [(k.arg, k.value) for k in call.keywords]
                if {f for f, _ in pairs} != set(fields):
                    continue
                new = [ast.copy_location(ast.Assign(targets=[ast.Name(id=f'{t}__{f}', ctx=ast.Store())], value=v,
                                                    type_comment=None), st) for f, v in pairs]
                parent_lists = [getattr(p, fld) for p in ast.walk(fn) for fld in ('body', 'orelse', 'finalbody')
                                if isinstance(getattr(p, fld, None), list)] + \
                               [h.body for p in ast.walk(fn) for h in getattr(p, 'handlers', []) or []]
                for lst in parent_lists:
                    for i, x in enumerate(lst):
                        if x is st:
                            lst[i:i + 1] = new
                            break
                for n in proj:
                    n.__class__ = ast.Name
                    n.id = f'{t}__{n.attr}'
                    n._fields = ('id', 'ctx')
                    del n.value, n.attr
                log.append(f'record {mname}.{fn.name}: {st.value.func.id} value {t} split into one local per field')
        ast.fix_missing_locations(mod.tree)


def _boolean_valued(e) -> bool:
    if isinstance(e, ast.Constant):
        return isinstance(e.value, bool)
    if isinstance(e, ast.Compare):
        return True
    if isinstance(e, ast.UnaryOp) and isinstance(e.op, ast.Not):
        return True
    if isinstance(e, ast.BoolOp):
        return all(_boolean_valued(v) for v in e.values)
    return isinstance(e, ast.Call) and isinstance(e.func, ast.Name) and e.func.id == 'bool' and len(e.args) == 1


def first_truthy_chains(modules: dict, log: list):
    """`next(filter(None, (f(args) for f in (a, b, c))), default)` - "the first alternative that yields something" - is the
    short-circuit chain `a(args) or b(args) or c(args) or default`; as the iterable of a `for` or the value of an assignment
    it is written out as  t = a(args); if not t: t = b(args); ...  so that the alternatives stand in statement position
    (where private helpers can be expanded).  The tuple of callables and the generator may sit in locals that are bound once
    and used for nothing else."""
    for mname, mod in modules.items():
        for fn in [n for n in ast.walk(mod.tree) if isinstance(n, FUNC)]:
            la = {}
            for st in _walk_no_nested(fn):
                if isinstance(st, ast.Assign) and len(st.targets) == 1 and isinstance(st.targets[0], ast.Name):
                    la.setdefault(st.targets[0].id, []).append(st)

            def once(name):
                sts = la.get(name, [])
                n_store = sum(1 for x in ast.walk(fn) if isinstance(x, ast.Name) and x.id == name and not isinstance(x.ctx, ast.Load))
                n_load = sum(1 for x in ast.walk(fn) if isinstance(x, ast.Name) and x.id == name and isinstance(x.ctx, ast.Load))
                return sts[0] if len(sts) == 1 and n_store == 1 and n_load == 1 else None
            hits = []
            for call in [n for n in ast.walk(fn) if isinstance(n, ast.Call)]:
                if not (isinstance(call.func, ast.Name) and call.func.id == 'next' and len(call.args) == 2 and not call.keywords):
                    continue
                flt, default = call.args
                if not (isinstance(flt, ast.Call) and isinstance(flt.func, ast.Name) and flt.func.id == 'filter' and
                        len(flt.args) == 2 and isinstance(flt.args[0], ast.Constant) and flt.args[0].value is None):
                    continue
                gen, drop = flt.args[1], []
                if isinstance(gen, ast.Name):
                    st = once(gen.id)
                    if st is None:
                        continue
                    drop.append(st)
                    gen = st.value
                if not (isinstance(gen, ast.GeneratorExp) and len(gen.generators) == 1 and not gen.generators[0].ifs and
                        isinstance(gen.generators[0].target, ast.Name) and isinstance(gen.elt, ast.Call) and
                        isinstance(gen.elt.func, ast.Name) and gen.elt.func.id == gen.generators[0].target.id and
                        all(_pure(a) for a in gen.elt.args) and not gen.elt.keywords):
                    continue
                seq = gen.generators[0].iter
                if isinstance(seq, ast.Name):
                    st = once(seq.id)
                    if st is None:
                        continue
                    drop.append(st)
                    seq = st.value
                if not (isinstance(seq, (ast.Tuple, ast.List)) and seq.elts and all(_pure(e) for e in seq.elts)):
                    continue
                alts = [ast.Call(func=clone(e), args=[clone(a) for a in gen.elt.args], keywords=[]) for e in seq.elts]
                hits.append((call, alts + [clone(default)], drop))
            for call, operands, drop in hits:
                # statement that holds the call: a `for` whose iterable it is, or an assignment whose value it is
                done = False
                for parent in ast.walk(fn):
                    for fld in ('body', 'orelse', 'finalbody'):
                        lst = getattr(parent, fld, None)
                        if not isinstance(lst, list):
                            continue
                        for i, st in enumerate(lst):
                            holder = (isinstance(st, ast.For) and st.iter is call) or \
                                     (isinstance(st, ast.Assign) and st.value is call)
                            if not holder:
                                continue
                            tmp = '_first_truthy' if isinstance(st, ast.For) else None
                            tgt = [ast.Name(id=tmp, ctx=ast.Store())] if tmp else clone(st.targets)
                            load = ast.Name(id=tmp, ctx=ast.Load()) if tmp else None
                            seqs = [ast.Assign(targets=tgt, value=operands[0], type_comment=None)]
                            for op in operands[1:]:
                                test = ast.UnaryOp(op=ast.Not(), operand=clone(tgt[0]))
                                for x in ast.walk(test):
                                    if isinstance(x, (ast.Name, ast.Attribute, ast.Subscript)):
                                        x.ctx = ast.Load()
                                seqs.append(ast.If(test=test, body=[ast.Assign(targets=clone(tgt), value=op, type_comment=None)],
                                                   orelse=[]))
                            if isinstance(st, ast.For):
                                st.iter = load
                                lst[i:i] = seqs
                            else:
                                lst[i:i + 1] = seqs
                            for s_ in seqs:
                                ast.copy_location(s_, st)
                                ast.fix_missing_locations(s_)
                            done = True
                            break
                        if done:
                            break
                    if done:
                        break
                if done:
                    for parent in ast.walk(fn):
                        for fld in ('body', 'orelse', 'finalbody'):
                            lst = getattr(parent, fld, None)
                            if isinstance(lst, list):
                                for d in drop:
                                    if d in lst:
                                        lst[lst.index(d)] = ast.copy_location(ast.Pass(), d)
                    log.append(f'first-match chain {mname}.{fn.name}: next(filter(None, ...)) over {len(operands) - 1} '
                               f'alternatives written out')
        ast.fix_missing_locations(mod.tree)


def decision_tables(modules: dict, log: list):
    """A module-level dict whose keys are tuples of booleans (a decision table) that a function indexes with a local tuple of
    boolean-valued expressions:   K = (bool(a), b is not None);  if K not in D: raise ..;  x = D[K]
    is rewritten to the if / elif chain it abbreviates (`K not in D` becomes the disjunction of the combinations that are
    missing from the table).  Only when K is bound once and used in no other way."""
    import itertools
    for mname, mod in modules.items():
        tables = {}
        for name, v in _once_bound(mod.tree.body).items():
            if isinstance(v, ast.Dict) and v.keys and all(
                    isinstance(k, ast.Tuple) and k.elts and all(isinstance(x, ast.Constant) and isinstance(x.value, bool)
                                                                for x in k.elts) for k in v.keys) and \
                    all(_is_const(x) for x in v.values) and len({len(k.elts) for k in v.keys}) == 1 and len(v.keys[0].elts) <= 3:
                tables[name] = {tuple(x.value for x in k.elts): val for k, val in zip(v.keys, v.values)}
        if not tables:
            continue
        for fn in [n for n in ast.walk(mod.tree) if isinstance(n, FUNC)]:
            for kst in [n for n in _walk_no_nested(fn) if isinstance(n, ast.Assign)]:
                if not (len(kst.targets) == 1 and isinstance(kst.targets[0], ast.Name) and isinstance(kst.value, ast.Tuple)
                        and kst.value.elts and all(_boolean_valued(e) for e in kst.value.elts)):
                    continue
                kname, exprs = kst.targets[0].id, kst.value.elts
                stores = [n for n in ast.walk(fn) if isinstance(n, ast.Name) and n.id == kname and not isinstance(n.ctx, ast.Load)]
                loads = [n for n in ast.walk(fn) if isinstance(n, ast.Name) and n.id == kname and isinstance(n.ctx, ast.Load)]
                if len(stores) != 1 or not loads:
                    continue
                # classify every use
                uses = []
                for parent in ast.walk(fn):
                    if isinstance(parent, ast.Compare) and len(parent.ops) == 1 and isinstance(parent.ops[0], (ast.In, ast.NotIn)) \
                            and isinstance(parent.left, ast.Name) and parent.left.id == kname and \
                            isinstance(parent.comparators[0], ast.Name) and parent.comparators[0].id in tables:
                        uses.append(('member', parent, parent.comparators[0].id))
                    if isinstance(parent, ast.Assign) and isinstance(parent.value, ast.Subscript) and \
                            isinstance(parent.value.value, ast.Name) and parent.value.value.id in tables and \
                            isinstance(parent.value.slice, ast.Name) and parent.value.slice.id == kname:
                        uses.append(('lookup', parent, parent.value.value.id))
                if len(uses) != len(loads) or len({t for _k, _p, t in uses}) != 1:
                    continue
                table = tables[uses[0][2]]
                n = len(exprs)
                if any(len(k) != n for k in table):
                    continue

                def lit(e, want):
                    if isinstance(e, ast.Call) and isinstance(e.func, ast.Name) and e.func.id == 'bool':
                        e = e.args[0]
                    e = clone(e)
                    return e if want else ast.UnaryOp(op=ast.Not(), operand=e)

                def match(key):
                    parts = [lit(e, w) for e, w in zip(exprs, key)]
                    return parts[0] if len(parts) == 1 else ast.BoolOp(op=ast.And(), values=parts)

                def any_of(keys):
                    if not keys:
                        return ast.Constant(value=False)
                    ms = [match(k) for k in keys]
                    return ms[0] if len(ms) == 1 else ast.BoolOp(op=ast.Or(), values=ms)
                missing = [c for c in itertools.product((True, False), repeat=n) if c not in table]
                for kind, node, _t in uses:
                    if kind == 'member':
                        positive = isinstance(node.ops[0], ast.In)
                        new = any_of(list(table)) if positive else any_of(missing)
                        for parent in ast.walk(fn):
                            for fld, val in ast.iter_fields(parent):
                                if val is node:
                                    setattr(parent, fld, ast.copy_location(new, node))
                                elif isinstance(val, list) and any(v is node for v in val):
                                    setattr(parent, fld, [ast.copy_location(new, node) if v is node else v for v in val])
                    else:
                        chain = None
                        raise_ = ast.Raise(exc=ast.Call(func=ast.Name(id='KeyError', ctx=ast.Load()),
                                                        args=[ast.Name(id=kname, ctx=ast.Load())], keywords=[]), cause=None)
                        orelse = [raise_]
                        for key in reversed(list(table)):
                            asg = ast.Assign(targets=clone(node.targets), value=clone(table[key]), type_comment=None)
                            chain = ast.If(test=match(key), body=[asg], orelse=orelse)
                            orelse = [chain]
                        for parent in ast.walk(fn):
                            for fld in ('body', 'orelse', 'finalbody'):
                                lst = getattr(parent, fld, None)
                                if isinstance(lst, list) and node in lst:
                                    lst[lst.index(node)] = ast.copy_location(chain, node)
                        ast.fix_missing_locations(chain)
                log.append(f'decision table {mname}.{fn.name}: {uses[0][2]}[{kname}] written out as an if / elif chain')
        ast.fix_missing_locations(mod.tree)


# ----------------------------------------------------------------------------------------------------- 2. inlining
class _Bail(Exception):
    pass


def _contains_return(st) -> bool:
    for n in _walk_no_nested(st):
        if isinstance(n, ast.Return):
            return True
    return False


def _walk_no_nested(node):
    todo = [node]
    while todo:
        n = todo.pop()
        yield n
        for c in ast.iter_child_nodes(n):
            if isinstance(c, (*FUNC, ast.ClassDef, ast.Lambda)):
                continue
            todo.append(c)


def _always_returns(stmts) -> bool:
    if not stmts:
        return False
    last = stmts[-1]
    if isinstance(last, (ast.Return, ast.Raise)):
        return True
    if isinstance(last, ast.If):
        return _always_returns(last.body) and _always_returns(last.orelse)
    if isinstance(last, ast.With):
        return _always_returns(last.body)
    return False


def _eliminate_returns(stmts, k):
    """Rewrite a helper body so that every `return v` becomes k(v) and control then leaves the block (structured forms only)."""
    out = []
    for i, st in enumerate(stmts):
        rest = stmts[i + 1:]
        if isinstance(st, ast.Return):
            out.extend(k(st.value, st))
            return out
        if not _contains_return(st):
            out.append(st)
            continue
        if isinstance(st, ast.If):
            body = list(st.body) + ([] if _always_returns(st.body) else clone(rest))
            orelse = list(st.orelse) + ([] if _always_returns(st.orelse) else clone(rest))
            new = ast.If(test=st.test, body=_eliminate_returns(body, k) or [ast.Pass()],
                         orelse=_eliminate_returns(orelse, k))
            out.append(ast.copy_location(new, st))
            return out
        if isinstance(st, ast.With) and (not rest or _always_returns(st.body)):
            new = ast.With(items=st.items, body=_eliminate_returns(list(st.body), k) or [ast.Pass()], type_comment=None)
            out.append(ast.copy_location(new, st))
            return out
        raise _Bail(f'return inside {type(st).__name__}')
    out.extend(k(None, None, fallthrough=True))
    return out


def _eliminate_returns_general(stmts, k, done_name):
    """Return elimination for any control structure: the inlined body runs inside `while True: <body>; break` (marked so that
    the CFG does not count it as a loop of the program); `return v` becomes k(v) + break, and a return inside an inner loop
    additionally sets a flag that makes every enclosing inner loop break as well."""
    used_flag = [False]

    def has_ret(st):
        return _contains_return(st)

    def tx(block, depth):
        out = []
        for st in block:
            if isinstance(st, ast.Return):
                out.extend(k(st.value, st))
                if depth > 0:
                    used_flag[0] = True
                    out.append(ast.copy_location(ast.Assign(targets=[ast.Name(id=done_name, ctx=ast.Store())],
                                                            value=ast.Constant(value=True), type_comment=None), st))
                out.append(ast.copy_location(ast.Break(), st))
                return out   # statements after a return are dead
            if not has_ret(st):
                out.append(st)
                continue
            if isinstance(st, (ast.For, ast.While, ast.AsyncFor)):
                st.body = tx(list(st.body), depth + 1)
                st.orelse = tx(list(st.orelse), depth)
                out.append(st)
                chk = ast.If(test=ast.Name(id=done_name, ctx=ast.Load()), body=[ast.Break()], orelse=[])
                out.append(ast.copy_location(chk, st))
                used_flag[0] = True
                continue
            if isinstance(st, ast.If):
                st.body = tx(list(st.body), depth) or [ast.copy_location(ast.Pass(), st)]
                st.orelse = tx(list(st.orelse), depth)
                out.append(st)
                continue
            if isinstance(st, (ast.With, ast.AsyncWith)):
                st.body = tx(list(st.body), depth) or [ast.copy_location(ast.Pass(), st)]
                out.append(st)
                continue
            if isinstance(st, ast.Try):
                st.body = tx(list(st.body), depth) or [ast.copy_location(ast.Pass(), st)]
                for h in st.handlers:
                    h.body = tx(list(h.body), depth) or [ast.copy_location(ast.Pass(), st)]
                st.orelse = tx(list(st.orelse), depth)
                st.finalbody = tx(list(st.finalbody), depth)
                out.append(st)
                continue
            raise _Bail(f'return inside {type(st).__name__}')
        return out
    body = tx(list(stmts), 0)
    if not (body and isinstance(body[-1], ast.Break)):
        body = body + k(None, None, fallthrough=True) + [ast.Break()]
    loc = stmts[0] if stmts else None
    wrapper = ast.While(test=ast.Constant(value=True), body=body, orelse=[])
    wrapper._inline_wrapper = True  # noqa: SLF001
    if loc is not None:
        ast.copy_location(wrapper, loc)
    pre = []
    if used_flag[0]:
        init = ast.Assign(targets=[ast.Name(id=done_name, ctx=ast.Store())], value=ast.Constant(value=False), type_comment=None)
        pre.append(ast.copy_location(init, loc) if loc is not None else init)
    return pre + [wrapper]


def _assigned_names(fn) -> set:
    names = set()
    comp_scoped = {id(t) for c in ast.walk(fn) if isinstance(c, ast.comprehension) for t in ast.walk(c.target)}
    for n in _walk_no_nested(fn):
        if id(n) in comp_scoped:
            continue   # the variable of a comprehension lives in the comprehension's own scope
        if isinstance(n, ast.Name) and isinstance(n.ctx, (ast.Store, ast.Del)):
            names.add(n.id)
        elif isinstance(n, ast.ExceptHandler) and n.name:
            names.add(n.name)
    return names


def _all_names(fn) -> set:
    names = {a.arg for a in fn.args.args + fn.args.kwonlyargs}
    for n in ast.walk(fn):
        if isinstance(n, ast.Name):
            names.add(n.id)
    return names


class _Subst(ast.NodeTransformer):
    def __init__(self, mapping):
        self.mapping = mapping

    def visit_Name(self, n):  # noqa: N802
        m = self.mapping.get(n.id)
        if m is None:
            return n
        if isinstance(m, str):
            return ast.copy_location(ast.Name(id=m, ctx=n.ctx), n)
        if not isinstance(n.ctx, ast.Load):
            raise _Bail('parameter bound to an expression is assigned')
        return ast.copy_location(clone(m), n)

    def visit_ExceptHandler(self, n):  # noqa: N802
        if n.name and isinstance(self.mapping.get(n.name), str):
            n.name = self.mapping[n.name]
        return self.generic_visit(n)


def _is_static(fn) -> bool:
    return len(fn.decorator_list) == 1 and isinstance(fn.decorator_list[0], ast.Name) and fn.decorator_list[0].id == 'staticmethod'


def _is_classmethod(fn) -> bool:
    return len(fn.decorator_list) == 1 and isinstance(fn.decorator_list[0], ast.Name) and fn.decorator_list[0].id == 'classmethod'


def _inlinable(fn) -> bool:
    if isinstance(fn, ast.AsyncFunctionDef) or \
            (fn.decorator_list and not (_is_static(fn) or _is_classmethod(fn) or _is_contextmanager(fn))):
        return False
    a = fn.args
    if a.posonlyargs:
        return False
    for n in ast.walk(fn):
        if isinstance(n, (ast.YieldFrom, ast.Await, ast.Global, ast.Nonlocal)):
            return False
        if n is not fn and isinstance(n, (*FUNC, ast.ClassDef)):
            return False
    return True


def _is_contextmanager(fn) -> bool:
    return len(fn.decorator_list) == 1 and ast.unparse(fn.decorator_list[0]) in ('contextmanager', 'contextlib.contextmanager')


def _expand_contextmanager(fn, with_st, call, is_method, caller_names):
    """`with helper(args) [as v]: BODY` for a @contextmanager helper with exactly one `yield` statement: the helper's body with
    that statement replaced by `[v = <yielded>;] BODY`.  (An exception raised by BODY is thrown into the generator at the
    yield - exactly what the replaced statement does inside the helper's own with / try blocks.)"""
    if len(with_st.items) != 1:
        raise _Bail('several context managers in one with')
    prefix, mapping = _bind(fn, call, is_method, caller_names, fn.name)
    body = clone(fn.body)
    if body and isinstance(body[0], ast.Expr) and isinstance(body[0].value, ast.Constant) and isinstance(body[0].value.value, str):
        body = body[1:]
    yields = [n for st in body for n in ast.walk(st) if isinstance(n, ast.Yield)]
    if len(yields) != 1 or any(isinstance(n, ast.Return) for st in body for n in ast.walk(st)):
        raise _Bail('contextmanager with several yields / a return')
    body = [_Subst(mapping).visit(st) for st in body]
    target = with_st.items[0].optional_vars
    done = [False]

    class Y(ast.NodeTransformer):
        def visit_Expr(self, st):  # noqa: N802
            if isinstance(st.value, ast.Yield):
                out = []
                if target is not None:
                    v = st.value.value if st.value.value is not None else ast.Constant(value=None)
                    out.append(ast.copy_location(ast.Assign(targets=[clone(target)], value=v, type_comment=None), st))
                out.extend(with_st.body)
                done[0] = True
                return out
            return st
    new = []
    for st in body:
        r = Y().visit(st)
        new.extend(r if isinstance(r, list) else [r])
    if not done[0]:
        raise _Bail('yield is not a statement')
    out = prefix + new
    for st in out:
        ast.fix_missing_locations(st)
    return out


def _is_generator(fn) -> bool:
    return any(isinstance(n, ast.Yield) for n in _walk_no_nested(fn))


def _expand_generator_loop(fn, loop, call, counter_target, start, is_method, caller_names):
    """`for x in gen(args): BODY`  ->  the generator's body with every `yield v` replaced by `x = v; BODY`.

    Valid when BODY has no break / continue / return (those would have to act on the generator) and the generator has no
    return with a value and yields only as statements.  `for i, x in enumerate(gen(args), start=k)` additionally gets the
    counter: `i = k - 1` in front, `i += 1` before each body."""
    for n in ast.walk(ast.Module(body=loop.body, type_ignores=[])):
        if isinstance(n, (ast.Break, ast.Continue, ast.Return)):
            raise _Bail('loop body leaves the loop')
    if loop.orelse:
        raise _Bail('for-else')
    prefix, mapping = _bind(fn, call, is_method, caller_names, fn.name)
    body = clone(fn.body)
    if body and isinstance(body[0], ast.Expr) and isinstance(body[0].value, ast.Constant) and isinstance(body[0].value.value, str):
        body = body[1:]
    for st in body:
        for n in ast.walk(st):
            if isinstance(n, ast.Return) and n.value is not None:
                raise _Bail('generator returns a value')
            if isinstance(n, ast.Yield) and not isinstance(getattr(n, '_parent', None), ast.Expr):
                pass
    body = [_Subst(mapping).visit(s) for s in body]
    target = loop.target

    class Y(ast.NodeTransformer):
        def visit_Expr(self, st):  # noqa: N802
            if isinstance(st.value, ast.Yield):
                v = st.value.value if st.value.value is not None else ast.Constant(value=None)
                out = []
                if counter_target is not None:
                    out.append(ast.copy_location(ast.AugAssign(target=ast.Name(id=counter_target, ctx=ast.Store()),
                                                               op=ast.Add(), value=ast.Constant(value=1)), st))
                out.append(ast.copy_location(ast.Assign(targets=[clone(target)], value=v, type_comment=None), st))
                out.extend(clone(loop.body))
                return out
            return st
    new = []
    for st in body:
        r = Y().visit(st)
        new.extend(r if isinstance(r, list) else [r])
    has_return = False
    for st in new:
        for n in ast.walk(st):
            if isinstance(n, ast.Yield):
                raise _Bail('yield used as an expression')
            if isinstance(n, ast.Return):
                has_return = True    # a bare `return` ends the generation: control continues after the expanded loop
    if has_return:
        new = _eliminate_returns_general(new, lambda value, ret, fallthrough=False: [], f'{fn.name.strip("_")}__exhausted')
    pre = list(prefix)
    if counter_target is not None:
        init = ast.BinOp(left=start, op=ast.Sub(), right=ast.Constant(value=1))
        pre.append(ast.copy_location(ast.Assign(targets=[ast.Name(id=counter_target, ctx=ast.Store())], value=init,
                                                type_comment=None), loop))
    out = pre + new
    for st in out:
        ast.fix_missing_locations(st)
    return out


def _simple_arg(e) -> bool:
    if isinstance(e, (ast.Name, ast.Constant)):
        return True
    # an attribute chain on a name that looks like a class / module constant (InvocationState.WAIT, pm_types.X.Y)
    return isinstance(e, ast.Attribute) and _pure(e) and e.attr.isupper()


def _bind(fn, call, is_method, caller_names, log_name):
    """-> (prefix statements, substitution mapping) for parameters and helper locals."""
    params = [a.arg for a in fn.args.args]
    defaults = dict(zip(params[len(params) - len(fn.args.defaults):], fn.args.defaults))
    for a, d in zip(fn.args.kwonlyargs, fn.args.kw_defaults):
        params.append(a.arg)
        if d is not None:
            defaults[a.arg] = d
    actual = {}
    pos = list(call.args)
    plist = params[1:] if is_method else params
    n_named = len(fn.args.args) - (1 if is_method else 0)
    if any(isinstance(x, ast.Starred) for x in pos[:n_named]):
        raise _Bail('star arguments')
    extra_pos, extra_kw = [], []
    if len(pos) > n_named:
        if not fn.args.vararg:
            raise _Bail('too many arguments')
        extra_pos, pos = pos[n_named:], pos[:n_named]
    order = []
    for p, v in zip(plist, pos):
        actual[p] = v
        order.append(p)
    for k in call.keywords:
        if k.arg is None or k.arg not in plist:
            if not fn.args.kwarg:
                raise _Bail('keyword mismatch')
            extra_kw.append(k)
            continue
        if k.arg in actual:
            raise _Bail('keyword mismatch')
        actual[k.arg] = k.value
        order.append(k.arg)
    _bind.extras = (extra_pos, extra_kw)
    for p in plist:
        if p not in actual:
            if p not in defaults:
                raise _Bail('missing argument')
            actual[p] = defaults[p]
            order.append(p)
    assigned = _assigned_names(fn)
    mapping = {}
    prefix = []
    taken = set(caller_names)
    if is_method and params[0] not in ('self', 'cls'):
        mapping[params[0]] = 'self'
    recv = call.func.value if isinstance(call.func, ast.Attribute) else None
    if is_method and isinstance(recv, ast.Name) and recv.id not in ('self', 'cls') and not _is_classmethod(fn):
        if params[0] in _assigned_names(fn):
            raise _Bail('helper re-binds self')
        mapping[params[0]] = recv     # the helper runs on another object
    # helper locals that clash with caller names get a suffix
    for name in sorted(assigned - set(plist)):
        if name in taken:
            mapping[name] = f'{name}__{log_name.strip("_")}'
        taken.add(mapping.get(name, name))
    for p in order:
        v = actual[p]
        if _simple_arg(v) and p not in assigned:
            if not (isinstance(v, ast.Name) and v.id == p):
                mapping[p] = v
            continue
        target = p if p not in taken else f'{p}__{log_name.strip("_")}'
        taken.add(target)
        if target != p:
            mapping[p] = target
        prefix.append(ast.copy_location(ast.Assign(targets=[ast.Name(id=target, ctx=ast.Store())], value=v,
                                                    type_comment=None), call))
    return prefix, mapping


def _pass_through(body, fn, extra_pos, extra_kw):
    """*args / **kwargs of a wrapper that only hands them on (`f(a, *args, **kwargs)`): put the call site's extra arguments
    there.  Any other use of the two names makes the helper non-inlinable."""
    va = fn.args.vararg.arg if fn.args.vararg else None
    ka = fn.args.kwarg.arg if fn.args.kwarg else None

    class P(ast.NodeTransformer):
        def visit_Call(self, node):  # noqa: N802
            self.generic_visit(node)
            new_args = []
            for a in node.args:
                if isinstance(a, ast.Starred) and isinstance(a.value, ast.Name) and a.value.id == va:
                    new_args.extend(clone(x) for x in extra_pos)
                else:
                    new_args.append(a)
            new_kw = []
            for k in node.keywords:
                if k.arg is None and isinstance(k.value, ast.Name) and k.value.id == ka:
                    new_kw.extend(clone(x) for x in extra_kw)
                else:
                    new_kw.append(k)
            node.args, node.keywords = new_args, new_kw
            return node
    # legal uses only: f(.., *args, ..) and f(.., **kwargs)
    legal = set()
    for s in body:
        for c in ast.walk(s):
            if isinstance(c, ast.Call):
                for a in c.args:
                    if isinstance(a, ast.Starred) and isinstance(a.value, ast.Name) and a.value.id == va:
                        legal.add(id(a.value))
                for k in c.keywords:
                    if k.arg is None and isinstance(k.value, ast.Name) and k.value.id == ka:
                        legal.add(id(k.value))
    for s in body:
        for x in ast.walk(s):
            if isinstance(x, ast.Name) and x.id in (va, ka) and id(x) not in legal:
                raise _Bail('*args / **kwargs used other than for handing on')
    return [P().visit(s) for s in body]


def _expand(fn, call, stmt, kind, is_method, caller_names):
    """Statements replacing `stmt` (which contains `call` in position `kind`)."""
    prefix, mapping = _bind(fn, call, is_method, caller_names, fn.name)
    body = clone(fn.body)
    if body and isinstance(body[0], ast.Expr) and isinstance(body[0].value, ast.Constant) and isinstance(body[0].value.value, str):
        body = body[1:]
    for n in body:
        for sub in ast.walk(n):
            if isinstance(sub, (ast.ListComp, ast.SetComp, ast.DictComp, ast.GeneratorExp)):
                for g in sub.generators:
                    for t in ast.walk(g.target):
                        if isinstance(t, ast.Name) and t.id in mapping:
                            raise _Bail('comprehension variable shadows a substituted name')
    body = [_Subst(mapping).visit(s) for s in body]
    if fn.args.vararg or fn.args.kwarg:
        body = _pass_through(body, fn, *_bind.extras)
    tmp = None

    def k(value, ret, fallthrough=False):
        if kind == 'expr':
            if value is not None and any(isinstance(x, ast.Call) for x in ast.walk(value)):
                return [ast.copy_location(ast.Expr(value=value), ret)]
            return []
        v = value if value is not None else ast.Constant(value=None)
        loc = ret if ret is not None else stmt
        if kind == 'return':
            return [ast.copy_location(ast.Return(value=v), loc)]
        if kind == 'assign':
            if isinstance(stmt, ast.AnnAssign):
                return [ast.copy_location(ast.Assign(targets=[clone(stmt.target)], value=v, type_comment=None), loc)]
            if isinstance(stmt, ast.AugAssign):
                return [ast.copy_location(ast.AugAssign(target=clone(stmt.target), op=stmt.op, value=v), loc)]
            return [ast.copy_location(ast.Assign(targets=clone(stmt.targets), value=v, type_comment=None), loc)]
        return [ast.copy_location(ast.Assign(targets=[ast.Name(id=tmp, ctx=ast.Store())], value=v, type_comment=None), loc)]

    if kind == 'hoist':
        tmp = f'{fn.name.strip("_")}__result'
    if kind == 'return':
        # `return helper(..)`: a return in the helper body is a return of the caller - nothing to eliminate
        new = list(body)
        if not _always_returns(new):
            new.append(ast.Return(value=ast.Constant(value=None)))
    else:
        try:
            new = _eliminate_returns(clone(body), k)
        except _Bail:
            new = _eliminate_returns_general(body, k, f'{fn.name.strip("_")}__returned')
    for s in prefix + new:
        ast.fix_missing_locations(s)
    return prefix + new, tmp


def _call_position(stmt, is_target):
    """Find a call to the helper that is the whole value of the statement -> (call, kind) or (None, None)."""
    def hit(e):
        return isinstance(e, ast.Call) and is_target(e)
    if isinstance(stmt, ast.Expr) and hit(stmt.value):
        return stmt.value, 'expr'
    if isinstance(stmt, (ast.Assign, ast.AnnAssign, ast.AugAssign)) and stmt.value is not None and hit(stmt.value):
        return stmt.value, 'assign'
    if isinstance(stmt, ast.Return) and stmt.value is not None and hit(stmt.value):
        return stmt.value, 'return'
    if isinstance(stmt, ast.If):
        t = stmt.test
        if hit(t):
            return t, 'hoist'
        if isinstance(t, ast.UnaryOp) and isinstance(t.op, ast.Not) and hit(t.operand):
            return t.operand, 'hoist'
        if isinstance(t, ast.Compare) and hit(t.left) and all(isinstance(c, (ast.Constant, ast.Name)) for c in t.comparators):
            return t.left, 'hoist'
    if isinstance(stmt, ast.For) and hit(stmt.iter):
        return stmt.iter, 'hoist'
    # f(.., helper(..), ..) as the whole value of a simple statement, everything evaluated before the helper call being pure
    # (names, attribute chains, constants): hoisting the call in front of the statement keeps the order of effects
    outer = stmt.value if isinstance(stmt, (ast.Expr, ast.Assign, ast.AnnAssign, ast.Return)) else None
    if isinstance(outer, ast.Call) and _pure(outer.func):
        for a in outer.args:
            if hit(a):
                return a, 'hoist'
            if not _pure(a):
                break
    return None, None


def _pure(e) -> bool:
    if isinstance(e, ast.Constant):
        return True
    while isinstance(e, ast.Attribute):
        e = e.value
    return isinstance(e, ast.Name)


def _replace_expr(stmt, old, new):
    for node in ast.walk(stmt):
        for field, value in ast.iter_fields(node):
            if value is old:
                setattr(node, field, new)
                return
            if isinstance(value, list):
                for i, v in enumerate(value):
                    if v is old:
                        value[i] = new
                        return


def _materialise_generator_use(st, is_target, caller_names):
    """`x = list(G)` / `return list(G)` / `X.extend(G)` / `.. = SEP.join(G)` with G a call of a generator helper  ->  the
    explicit accumulation loop `acc = []; for v in G: acc.append(v); ...` (same order of effects: list() / extend() / join()
    exhaust the generator before anything else happens)."""
    def fresh(stem):
        k = 0
        while f'{stem}{k}' in caller_names:
            k += 1
        caller_names.add(f'{stem}{k}')
        return f'{stem}{k}'

    def loop(gcall, acc_expr):
        v = fresh('_gv')
        app = ast.Expr(value=ast.Call(func=ast.Attribute(value=acc_expr, attr='append', ctx=ast.Load()),
                                      args=[ast.Name(id=v, ctx=ast.Load())], keywords=[]))
        return ast.For(target=ast.Name(id=v, ctx=ast.Store()), iter=gcall, body=[app], orelse=[], type_comment=None)

    if isinstance(st, ast.Expr) and isinstance(st.value, ast.Call) and isinstance(st.value.func, ast.Attribute) and \
            st.value.func.attr == 'extend' and len(st.value.args) == 1 and not st.value.keywords and \
            isinstance(st.value.args[0], ast.Call) and is_target(st.value.args[0]) and _pure(st.value.func.value):
        out = [loop(st.value.args[0], st.value.func.value)]
    elif isinstance(st, (ast.Assign, ast.Return)) and st.value is not None:
        v = st.value
        wrap = None
        if isinstance(v, ast.Call) and isinstance(v.func, ast.Name) and v.func.id == 'list' and len(v.args) == 1 and \
                not v.keywords and isinstance(v.args[0], ast.Call) and is_target(v.args[0]):
            gcall = v.args[0]
        elif isinstance(v, ast.Call) and isinstance(v.func, ast.Attribute) and v.func.attr == 'join' and len(v.args) == 1 and \
                isinstance(v.func.value, ast.Constant) and isinstance(v.args[0], ast.Call) and is_target(v.args[0]):
            gcall = v.args[0]
            wrap = v.func
        else:
            return None
        acc = fresh('_gacc')
        init = ast.Assign(targets=[ast.Name(id=acc, ctx=ast.Store())], value=ast.List(elts=[], ctx=ast.Load()), type_comment=None)
        res = ast.Name(id=acc, ctx=ast.Load())
        if wrap is not None:
            res = ast.Call(func=wrap, args=[res], keywords=[])
        last = clone(st)
        last.value = res
        out = [init, loop(gcall, ast.Name(id=acc, ctx=ast.Load())), last]
    else:
        return None
    for o in out:
        ast.copy_location(o, st)
        ast.fix_missing_locations(o)
    return out


def _inline_in_body(body, fn, is_target, is_method, caller_names, counter):
    i = 0
    while i < len(body):
        st = body[i]
        # `if a and b and helper(x): BODY` (no else): the helper runs exactly when a and b hold, so this is
        # `if a and b: if helper(x): BODY` - which brings the call into a position where it can be expanded
        if isinstance(st, ast.If) and not st.orelse and isinstance(st.test, ast.BoolOp) and isinstance(st.test.op, ast.And) \
                and isinstance(st.test.values[-1], ast.Call) and is_target(st.test.values[-1]):
            inner = ast.copy_location(ast.If(test=st.test.values[-1], body=st.body, orelse=[]), st)
            rest = st.test.values[:-1]
            st.test = rest[0] if len(rest) == 1 else ast.copy_location(ast.BoolOp(op=ast.And(), values=rest), st.test)
            st.body = [inner]
        if isinstance(st, ast.With) and _is_contextmanager(fn) and len(st.items) == 1 and \
                isinstance(st.items[0].context_expr, ast.Call) and is_target(st.items[0].context_expr):
            try:
                new = _expand_contextmanager(fn, st, st.items[0].context_expr, is_method, caller_names)
                body[i:i + 1] = new
                counter['inlined'] += 1
                continue   # the expanded statements are visited next (BODY may contain further calls)
            except _Bail:
                counter['bailed'] += 1
        if _is_generator(fn) and not _is_contextmanager(fn):
            new = _materialise_generator_use(st, is_target, caller_names)
            if new is not None:
                body[i:i + 1] = new
                continue   # the explicit loop is expanded next
        if isinstance(st, ast.For) and _is_generator(fn) and not _is_contextmanager(fn):
            gcall, ctr, start = None, None, None
            it = st.iter
            if isinstance(it, ast.Call) and is_target(it):
                gcall = it
            elif isinstance(it, ast.Call) and isinstance(it.func, ast.Name) and it.func.id == 'enumerate' and it.args and \
                    isinstance(it.args[0], ast.Call) and is_target(it.args[0]) and isinstance(st.target, ast.Tuple) and \
                    len(st.target.elts) == 2 and isinstance(st.target.elts[0], ast.Name):
                gcall = it.args[0]
                ctr = st.target.elts[0].id
                start = next((k.value for k in it.keywords if k.arg == 'start'), None) or \
                    (it.args[1] if len(it.args) > 1 else ast.Constant(value=0))
            if gcall is not None:
                try:
                    loop = st
                    if ctr is not None:
                        loop = clone(st)
                        loop.target = st.target.elts[1]
                    new = _expand_generator_loop(fn, loop, gcall, ctr, start, is_method, caller_names)
                    body[i:i + 1] = new
                    counter['inlined'] += 1
                    i += len(new)
                    continue
                except _Bail:
                    counter['bailed'] += 1
        if _is_generator(fn) or _is_contextmanager(fn):
            call, kind = None, None
        else:
            call, kind = _call_position(st, is_target)
        if call is not None:
            try:
                new, tmp = _expand(fn, call, st, kind, is_method, caller_names)
            except _Bail:
                counter['bailed'] += 1
                new = None
            if new is not None:
                if kind == 'hoist':
                    _replace_expr(st, call, ast.copy_location(ast.Name(id=tmp, ctx=ast.Load()), call))
                    body[i:i] = new
                    i += len(new)
                else:
                    body[i:i + 1] = new or [ast.copy_location(ast.Pass(), st)]
                    i += len(new) - 1 if new else 0
                counter['inlined'] += 1
                st = body[i] if i < len(body) else None
        if st is not None:
            for field in ('body', 'orelse', 'finalbody'):
                sub = getattr(st, field, None)
                if isinstance(sub, list) and sub and isinstance(sub[0], ast.stmt) and not isinstance(st, (*FUNC, ast.ClassDef)):
                    _inline_in_body(sub, fn, is_target, is_method, caller_names, counter)
            for h in getattr(st, 'handlers', []) or []:
                _inline_in_body(h.body, fn, is_target, is_method, caller_names, counter)
            for c in getattr(st, 'cases', []) or []:
                _inline_in_body(c.body, fn, is_target, is_method, caller_names, counter)
        i += 1


def _single_return_expr(fn):
    body = fn.body
    if body and isinstance(body[0], ast.Expr) and isinstance(body[0].value, ast.Constant) and isinstance(body[0].value.value, str):
        body = body[1:]
    def as_expr(stmts):
        # `return E`  |  `if c: return A else: return B` (what the if-expression desugaring makes of `return A if c else B`)
        if len(stmts) == 1 and isinstance(stmts[0], ast.Return) and stmts[0].value is not None:
            return stmts[0].value
        if len(stmts) == 1 and isinstance(stmts[0], ast.If) and stmts[0].orelse:
            a, b = as_expr(stmts[0].body), as_expr(stmts[0].orelse)
            if a is not None and b is not None:
                return ast.copy_location(ast.IfExp(test=stmts[0].test, body=a, orelse=b), stmts[0])
        return None
    e = as_expr(body)
    if e is not None and not any(isinstance(x, (ast.NamedExpr, ast.Lambda, ast.Yield, ast.YieldFrom, ast.Await))
                                 for x in ast.walk(e)):
        return e
    return None


def _inline_expression(fn, expr, is_target, is_method, callers, counter):
    """helper(args) -> the helper's single return expression with the parameters replaced, at every call site where each
    argument is pure (name / attribute chain / constant) or its parameter is used at most once."""
    if fn.args.vararg or fn.args.kwarg:
        return
    params = [a.arg for a in fn.args.args]
    plist = params[1:] if is_method else params
    defaults = dict(zip(params[len(params) - len(fn.args.defaults):], fn.args.defaults))
    uses = {p: sum(1 for x in ast.walk(expr) if isinstance(x, ast.Name) and x.id == p) for p in plist}
    bound_in_expr = {t.id for x in ast.walk(expr) if isinstance(x, ast.comprehension) for t in ast.walk(x.target)
                     if isinstance(t, ast.Name)}

    class T(ast.NodeTransformer):
        def visit_Call(self, node):  # noqa: N802
            self.generic_visit(node)
            if not is_target(node):
                return node
            if any(isinstance(a, ast.Starred) for a in node.args) or any(k.arg is None for k in node.keywords) or \
                    len(node.args) > len(plist):
                counter['bailed'] += 1
                return node
            actual = dict(zip(plist, node.args))
            for kw in node.keywords:
                if kw.arg not in plist or kw.arg in actual:
                    counter['bailed'] += 1
                    return node
                actual[kw.arg] = kw.value
            for p_ in plist:
                if p_ not in actual:
                    if p_ not in defaults:
                        counter['bailed'] += 1
                        return node
                    actual[p_] = defaults[p_]
            for p_, a in actual.items():
                if not (_pure(a) or uses[p_] <= 1):
                    counter['bailed'] += 1
                    return node
                if {x.id for x in ast.walk(a) if isinstance(x, ast.Name)} & bound_in_expr:
                    counter['bailed'] += 1
                    return node
            mapping = dict(actual)
            if is_method and params[0] not in ('self', 'cls'):
                mapping[params[0]] = 'self'
            counter['inlined'] += 1
            return ast.copy_location(_Subst(mapping).visit(clone(expr)), node)
    for caller in callers:
        if caller is fn:
            continue
        caller.body = [T().visit(st) for st in caller.body]
        ast.fix_missing_locations(caller)


def inline_new_helpers(repo, inv: dict, log: list) -> bool:
    """Inline private functions that the confirmed tree does not have.  Returns True when a tree was changed."""
    changed = False
    for mname, mod in repo.modules.items():
        for scope, container, fns in scopes_of(mod.tree):
            base = inv.get(f'{mname}:{scope}', {})
            for fn in fns:
                if not is_private(fn.name) or fn.name in base or not _inlinable(fn):
                    continue
                if any(isinstance(n, ast.Attribute) and n.attr == fn.name or isinstance(n, ast.Name) and n.id == fn.name
                       for n in ast.walk(fn)):
                    continue  # recursive
                in_class = isinstance(container, ast.ClassDef)
                is_method = in_class and not _is_static(fn)
                if is_method and not fn.args.args:
                    continue
                if in_class:
                    cq = f'{mname}.{scope}'
                    if cq not in repo.classes:
                        continue
                    family = [cq] + repo.subclasses(cq)
                    if any(fn.name in repo.classes[c].methods and repo.classes[c].methods[fn.name].node is not fn
                           for c in family):
                        continue  # overridden somewhere: dynamic dispatch, not inlined
                    callers = [f.node for c in family for f in repo.classes[c].methods.values()]
                    callers += [f.node for f in repo.funcs.values() if f.cls is not None and f.cls.qual in family
                                and f.node not in callers]

                    unique_name = sum(1 for ci_ in repo.classes.values() if fn.name in ci_.methods) == 1

                    def is_target(e, name=fn.name, static=not is_method, cname=container.name, clsm=_is_classmethod(fn),
                                  unique_name=unique_name):
                        if not (isinstance(e.func, ast.Attribute) and e.func.attr == name and isinstance(e.func.value, ast.Name)):
                            return False
                        if clsm:   # a classmethod helper: only calls through `cls` (its cls is then the caller's cls)
                            return e.func.value.id == 'cls'
                        if e.func.value.id == 'self' or (static and e.func.value.id in (cname, 'cls')):
                            return True
                        # `other._helper(..)` on another object of the family (a copy of self ...): the name is defined by
                        # this one class only, so the call cannot mean anything else
                        return (not static) and unique_name and e.func.value.id not in ('cls', 'super')
                else:
                    callers = [f.node for f in repo.funcs.values() if f.module is mod]

                    def is_target(e, name=fn.name):
                        return isinstance(e.func, ast.Name) and e.func.id == name
                counter = {'inlined': 0, 'bailed': 0}
                single = None if _is_generator(fn) else _single_return_expr(fn)
                if single is not None:
                    _inline_expression(fn, single, is_target, is_method, callers, counter)
                for caller in callers:
                    if caller is fn:
                        continue
                    _inline_in_body(caller.body, fn, is_target, is_method, _all_names(caller), counter)
                if not counter['inlined']:
                    continue
                changed = True
                # remaining references anywhere in the package?
                refs = 0
                for m2 in repo.modules.values():
                    for n in ast.walk(m2.tree):
                        if n is fn:
                            continue
                        if isinstance(n, ast.Attribute) and n.attr == fn.name or isinstance(n, ast.Name) and n.id == fn.name:
                            refs += 1
                removed = False
                if refs == 0:
                    for n in ast.walk(container):
                        for field in ('body', 'orelse', 'finalbody'):
                            lst = getattr(n, field, None)
                            if isinstance(lst, list) and fn in lst:
                                lst.remove(fn)
                                if not lst:
                                    lst.append(ast.copy_location(ast.Pass(), fn))
                                removed = True
                log.append(f'inline {mname}:{scope}.{fn.name}: {counter["inlined"]} call site(s) expanded'
                           f'{", helper dropped from the view" if removed else f", {refs} other reference(s) kept"}')
    return changed
