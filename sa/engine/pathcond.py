"""Path conditions over the CFG as truth tables.

For a function whose branch tests mention k distinct atoms (k <= MAX_ATOMS) every boolean combination of the atoms is one
"world"; a set of worlds is a Python int used as a bit set.  cond(n) is the set of worlds in which some path from the entry
evaluates n - computed by propagating masks along the edges (a branch pseudo node intersects with the worlds in which its test
has that outcome).  A rule then compares cond(n) with a specification formula written over the same atoms: equivalence,
implication or disjointness are plain integer operations, and a differing world is the witness.

This makes "statement S runs exactly when C" independent of how the guards are written: nested ifs, guard clauses with early
return, de Morgan forms, `!=` against `==`, operand order of ==, `x is not None` against `x is None`, conditions split over
several ifs, local aliases of attribute chains.

Approximations (stated, not hidden): atoms are treated as independent propositions and as time-invariant inside the function
(a test repeated after an assignment to its operands is the same atom) - the functions this is used on are guards that test
and then act; loops are cut at their back edges (the condition of the first arrival); `for` loops contribute no atoms.
"""
from __future__ import annotations

import ast

from .cfg import CFG, canon_atom, canon_compare
from .errors import AnalysisError

MAX_ATOMS = 16


def _norm_compare(e: ast.Compare):
    """-> (positive atom text, negated?) for a single-operator comparison (see cfg.canon_compare)."""
    return canon_compare(e)


def _parse(text: str):
    """Parse a formula; `$N` parameter placeholders (not Python) are carried through as names."""
    import re
    e = ast.parse(re.sub(r'\$(\d+)', r'_DOLLAR_\1', text), mode='eval').body
    for n in ast.walk(e):
        if isinstance(n, ast.Name) and n.id.startswith('_DOLLAR_'):
            n.id = '$' + n.id[len('_DOLLAR_'):]
    return e


class Worlds:
    def __init__(self, g: CFG, extra_atoms=(), resolve=True, symbolic=False):
        """symbolic=True: tests are written out with cfg.symbolic (every local replaced by its defining expression,
        parameters $N) instead of alias resolution only - for guards that test locals bound to lookups / attribute reads."""
        self.g = g
        self.resolve = resolve
        self.symbolic = symbolic
        self.atoms: list[str] = []
        for n in g.nodes:
            if n.kind == 'branch' and n.label in (True, False):
                self._collect(self._test_of(n))
        for t in extra_atoms:
            self._collect(_parse(t))
        if len(self.atoms) > MAX_ATOMS:
            raise AnalysisError(f'pathcond: {len(self.atoms)} atoms in {g.fn.name}, limit {MAX_ATOMS}')
        self.k = len(self.atoms)
        self.all = (1 << (1 << self.k)) - 1
        self._atom_mask = {}
        for i, a in enumerate(self.atoms):
            m = 0
            for w in range(1 << self.k):
                if w >> i & 1:
                    m |= 1 << w
            self._atom_mask[a] = m
        self._cond = None

    def _test_of(self, n):
        if self.symbolic:
            return self.g.symbolic(n, n.test)
        if not self.resolve:
            return n.test
        r = self.g.origin_expr(n, n.test, tests=True)
        return r if r is not None else n.test

    def _collect(self, e):
        if isinstance(e, ast.UnaryOp) and isinstance(e.op, ast.Not):
            self._collect(e.operand)
        elif isinstance(e, ast.BoolOp):
            for v in e.values:
                self._collect(v)
        elif isinstance(e, ast.Compare) and len(e.ops) == 1:
            a, _ = _norm_compare(e)
            if a not in self.atoms:
                self.atoms.append(a)
        else:
            a = canon_atom(ast.unparse(e))
            if a not in self.atoms:
                self.atoms.append(a)

    # ------------------------------------------------------------------ formulas -> masks
    def mask(self, e) -> int:
        """Worlds in which expression e (ast or source text) is true."""
        if isinstance(e, str):
            e = _parse(e)
        if isinstance(e, ast.Constant) and isinstance(e.value, bool):
            return self.all if e.value else 0
        if isinstance(e, ast.UnaryOp) and isinstance(e.op, ast.Not):
            return self.all & ~self.mask(e.operand)
        if isinstance(e, ast.BoolOp):
            ms = [self.mask(v) for v in e.values]
            r = ms[0]
            for m in ms[1:]:
                r = (r & m) if isinstance(e.op, ast.And) else (r | m)
            return r
        if isinstance(e, ast.Compare) and len(e.ops) == 1:
            a, negated = _norm_compare(e)
            m = self._atom_mask.get(a)
            if m is None:
                raise AnalysisError(f'pathcond: atom {a!r} is not tested in {self.g.fn.name}; tested: {self.atoms}')
            return self.all & ~m if negated else m
        a = canon_atom(ast.unparse(e))
        m = self._atom_mask.get(a)
        if m is None:
            raise AnalysisError(f'pathcond: atom {a!r} is not tested in {self.g.fn.name}; tested: {self.atoms}')
        return m

    def has_atom(self, text: str) -> bool:
        e = _parse(text)
        if isinstance(e, ast.Compare) and len(e.ops) == 1:
            return _norm_compare(e)[0] in self._atom_mask
        return canon_atom(text) in self._atom_mask

    # ------------------------------------------------------------------ propagation
    def _compute(self):
        g = self.g
        order = []
        seen = set()
        onstack = set()
        back = set()

        def succs(n):
            return list(n.succ) + list(n.esucc)
        stack = [(g.entry, iter(succs(g.entry)))]
        seen.add(g.entry.id)
        onstack.add(g.entry.id)
        while stack:
            n, it = stack[-1]
            for s in it:
                if s.id in onstack:
                    back.add((n.id, s.id))
                    continue
                if s.id not in seen:
                    seen.add(s.id)
                    onstack.add(s.id)
                    stack.append((s, iter(succs(s))))
                    break
            else:
                stack.pop()
                onstack.discard(n.id)
                order.append(n)
        order.reverse()
        cond = {n.id: 0 for n in g.nodes}
        cond[g.entry.id] = self.all
        for n in order:
            c = cond[n.id]
            if n.kind == 'branch' and n.label in (True, False):
                fm = self._flag_masks(n, cond)
                if fm is not None:
                    c &= fm[0] if n.label else fm[1]
                else:
                    t = self.mask(self._test_of(n))
                    c &= t if n.label else (self.all & ~t)
                cond[n.id] = c
            for s in succs(n):
                if (n.id, s.id) in back:
                    continue
                cond[s.id] |= c
        self._cond = cond

    def _flag_masks(self, b, cond):
        """A test on a boolean flag (`if done:` / `if not done:`) whose reaching definitions are all constant assignments:
        (worlds in which a truthy constant was assigned, worlds in which a falsy one was) - the flag is not a free atom, it
        repeats the conditions under which it was set."""
        e, flip = b.test, False
        while isinstance(e, ast.UnaryOp) and isinstance(e.op, ast.Not):
            e, flip = e.operand, not flip
        if not isinstance(e, ast.Name):
            return None
        defs = self.g._rd(e.id).get(b.id, set())  # noqa: SLF001
        if not defs:
            return None
        tm = fm = 0
        for d in defs:
            v = self.g.def_value(d, e.id) if d.kind == 'stmt' else None
            if not isinstance(v, ast.Constant):
                return None
            if v.value:
                tm |= cond.get(d.id, 0)
            else:
                fm |= cond.get(d.id, 0)
        return (fm, tm) if flip else (tm, fm)

    def cond(self, n) -> int:
        """Worlds in which node n is evaluated on some path."""
        if self._cond is None:
            self._compute()
        return self._cond[n.id]

    def cond_any(self, nodes) -> int:
        m = 0
        for n in nodes:
            m |= self.cond(n)
        return m

    # ------------------------------------------------------------------ comparisons
    def world(self, mask: int):
        """One world of a non-empty mask as {atom: bool}."""
        if not mask:
            return None
        w = (mask & -mask).bit_length() - 1
        return {a: bool(w >> i & 1) for i, a in enumerate(self.atoms)}

    def equivalent(self, mask: int, spec) -> tuple[bool, dict | None]:
        s = self.mask(spec) if not isinstance(spec, int) else spec
        d = mask ^ s
        if not d:
            return True, None
        w = self.world(d)
        return False, {'world': w, 'code': bool(mask >> self._index(w) & 1), 'required': bool(s >> self._index(w) & 1)}

    def implies(self, mask: int, spec) -> tuple[bool, dict | None]:
        s = self.mask(spec) if not isinstance(spec, int) else spec
        d = mask & ~s & self.all
        if not d:
            return True, None
        return False, {'world': self.world(d)}

    def _index(self, w):
        i = 0
        for j, a in enumerate(self.atoms):
            if w[a]:
                i |= 1 << j
        return i

    def describe(self, mask: int) -> str:
        """Minimal-ish DNF text of a mask (for messages)."""
        if mask == self.all:
            return 'always'
        if not mask:
            return 'never'
        terms = []
        for w in range(1 << self.k):
            if mask >> w & 1:
                terms.append(w)
        # drop atoms that do not matter
        relevant = [i for i in range(self.k) if any(((mask >> w) & 1) != ((mask >> (w ^ (1 << i))) & 1) for w in range(1 << self.k))]
        seen = set()
        out = []
        for w in terms:
            key = tuple((w >> i) & 1 for i in relevant)
            if key in seen:
                continue
            seen.add(key)
            out.append(' and '.join(('' if b else 'not ') + f'({self.atoms[i]})' for i, b in zip(relevant, key)))
        return ' OR '.join(out[:8]) + (' ...' if len(out) > 8 else '')


_cache = {}


def worlds_of(g: CFG, extra_atoms=(), symbolic=False) -> Worlds:
    key = (id(g), tuple(extra_atoms), symbolic)
    w = _cache.get(key)
    if w is None:
        w = Worlds(g, extra_atoms, symbolic=symbolic)
        _cache[key] = w
    return w
