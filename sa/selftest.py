"""Both-ways self-test (thorough tier): every seed is an edit of a scratch copy of the CURRENT tree that
breaks one confirmed rule instance (still compiles); the rule must fire on the variant.  Control seeds are
behaviour-preserving edits on which the rules must stay silent.  Scratch copies live under tempfile.mkdtemp()
and are removed immediately.  The result is part of the evidence; it decides nothing about the property."""
from __future__ import annotations

import concurrent.futures as cf
import importlib
import os
import pathlib
import shutil
import sys
import tempfile
import traceback

HERE = pathlib.Path(__file__).resolve().parent


def _copy_tree(src_root: pathlib.Path, dst_root: pathlib.Path):
    src_pkg = src_root / 'src' / 'sdc11073'
    dst_pkg = dst_root / 'src' / 'sdc11073'
    for p in src_pkg.rglob('*'):
        rel = p.relative_to(src_pkg)
        if '__pycache__' in rel.parts:
            continue
        if p.is_dir():
            (dst_pkg / rel).mkdir(parents=True, exist_ok=True)
        elif p.suffix in ('.py', '.xsd', '.xml', '.wsdl'):
            (dst_pkg / rel).parent.mkdir(parents=True, exist_ok=True)
            shutil.copyfile(p, dst_pkg / rel)
    extra = src_root / 'tutorial' / 'productandroles'
    if extra.is_dir():
        (dst_root / 'tutorial' / 'productandroles').mkdir(parents=True, exist_ok=True)
        for p in extra.glob('*.py'):
            shutil.copyfile(p, dst_root / 'tutorial' / 'productandroles' / p.name)


def apply_edits(root: pathlib.Path, edits) -> str | None:
    """Apply [(relpath, old, new)] edits. Returns None if applied, else the reason why the seed does not apply."""
    for rel, old, new in edits:
        p = root / rel
        if not p.is_file():
            return f'{rel} missing'
        s = p.read_bytes().decode('utf-8')
        crlf = '\r\n' in s
        if crlf:
            s = s.replace('\r\n', '\n')
        if s.count(old) != 1:
            return f'anchor text occurs {s.count(old)} times in {rel}'
        s = s.replace(old, new)
        try:
            compile(s, str(p), 'exec')
        except SyntaxError as ex:
            return f'variant does not compile: {ex}'
        if crlf:
            s = s.replace('\n', '\r\n')
        p.write_bytes(s.encode('utf-8'))
    return None


def _run_seed(args):
    prop, seed, repo_root, baseline_failed = args
    sys.path.insert(0, str(HERE))
    from engine.errors import AnalysisError
    from engine.repo import Repo
    from engine.report import Ctx
    tmp = pathlib.Path(tempfile.mkdtemp(prefix='sa-seed-'))
    try:
        _copy_tree(pathlib.Path(repo_root), tmp)
        if seed.get('patch'):
            import subprocess
            r = subprocess.run(['patch', '-p1', '-s', '--no-backup-if-mismatch', '-i', seed['patch']], cwd=str(tmp),
                               capture_output=True, text=True)
            why = None if r.returncode == 0 else 'patch does not apply to the current tree'
        else:
            why = apply_edits(tmp, seed['edits'])
        if why is not None:
            return {'name': seed['name'], 'status': 'skipped', 'why': why}
        mod = importlib.import_module(f'rules.{prop.lower()}')
        try:
            ctx = Ctx(prop, Repo(tmp), 'quick')
            mod.run(ctx)
            failed = [(o.rule, o.key) for o in ctx.failed() if o.key not in baseline_failed]
            aerr = None
        except AnalysisError as ex:
            failed, aerr = [], str(ex)
        if seed.get('control'):
            if failed or aerr:
                return {'name': seed['name'], 'status': 'false_alarm', 'reports': [k for _r, k in failed][:3],
                        'error': aerr}
            return {'name': seed['name'], 'status': 'silent_ok'}
        exp = seed['expect']
        hit = [k for r, k in failed if r == exp or r.startswith(exp)]
        if hit:
            return {'name': seed['name'], 'status': 'fired', 'rule': exp, 'report': hit[0]}
        if aerr and seed.get('accept_analysis_error'):
            return {'name': seed['name'], 'status': 'fired', 'rule': exp, 'report': 'ANALYSIS-ERROR ' + aerr}
        return {'name': seed['name'], 'status': 'not_fired', 'rule': exp, 'other': [k for _r, k in failed][:3],
                'error': aerr}
    except Exception:  # noqa: BLE001
        return {'name': seed['name'], 'status': 'not_fired', 'error': traceback.format_exc()[-800:]}
    finally:
        shutil.rmtree(tmp, ignore_errors=True)


def run_selftest(prop: str, mod, repo_root=None, jobs=16):
    from engine.repo import Repo, repo_root as rr
    from engine.report import Ctx
    root = pathlib.Path(repo_root) if repo_root else rr()
    seeds = list(getattr(mod, 'SEEDS', [])) + committed_patches(prop)
    ctx = Ctx(prop, Repo(root), 'quick')
    mod.run(ctx)
    baseline_failed = {o.key for o in ctx.failed()}
    results = []
    if seeds:
        with cf.ProcessPoolExecutor(max_workers=min(jobs, len(seeds), os.cpu_count() or 4)) as ex:
            results = list(ex.map(_run_seed, [(prop, s, str(root), baseline_failed) for s in seeds]))
    out = {
        'seeds': len(seeds),
        'applied': sum(1 for r in results if r['status'] in ('fired', 'not_fired')),
        'fired': sum(1 for r in results if r['status'] == 'fired'),
        'skipped': sum(1 for r in results if r['status'] == 'skipped'),
        'controls': sum(1 for r in results if r['status'] in ('silent_ok', 'false_alarm')),
        'not_fired': [r for r in results if r['status'] == 'not_fired'],
        'false_alarm': [r for r in results if r['status'] == 'false_alarm'],
        'skipped_list': [r for r in results if r['status'] == 'skipped'],
        'detail': [{k: v for k, v in r.items() if k in ('name', 'status', 'rule', 'report')} for r in results],
    }
    return out


def committed_patches(prop: str):
    """The sub-agent patches committed under /verif: seeded changes that a rule of this property reports (must fire) and
    behaviour-preserving refactorings of this property's code (controls: must stay silent).  A patch that no longer applies
    to the current tree is reported as skipped."""
    import json
    verif = HERE.parent
    out = []
    for d in sorted((verif / 'seeded').glob('C*-*')):
        meta = d / 'meta.json'
        if not meta.is_file() or not (d / 'patch.diff').is_file():
            continue
        m = json.loads(meta.read_text())
        if prop in (m.get('detected_by') or {}):
            out.append({'name': f'seeded/{d.name}', 'expect': prop, 'edits': [], 'control': False, 'patch': str(d / 'patch.diff')})
    for d in sorted((verif / 'refactored').glob(f'{prop}-*')):
        if (d / 'patch.diff').is_file():
            out.append({'name': f'refactored/{d.name}', 'expect': prop, 'edits': [], 'control': True,
                        'patch': str(d / 'patch.diff')})
    return out


def seed(name, expect, *edits, control=False, **kw):
    """edits: (relpath, old, new) triples."""
    d = {'name': name, 'expect': expect, 'edits': list(edits), 'control': control}
    d.update(kw)
    return d
