#!/venv/bin/python
"""Confirm and evaluate a seeded change.

  seeded.py confirm <dir>      demo fails with the patch and passes without it (scratch worktree under /tmp)
  seeded.py detect  <dir>      apply the patch to /repo, run every claimed quick check, undo it; print who fired
  seeded.py suite   <dir>      run the unedited full test suite with the patch in a scratch worktree (slow)
<dir> contains patch.diff and demo.py (demo takes the tree root as argv[1])."""
import json
import os
import pathlib
import subprocess
import sys
import tempfile

VERIF = pathlib.Path(__file__).resolve().parents[1]


def sh(cmd, **kw):
    return subprocess.run(cmd, shell=True, capture_output=True, text=True, **kw)


def scratch():
    d = tempfile.mkdtemp(prefix='seedwt-')
    r = sh(f'git -C /repo worktree add -f --detach {d} HEAD')
    assert r.returncode == 0, r.stderr
    return d


def drop(d):
    sh(f'git -C /repo worktree remove --force {d}')


def run_demo(d, root):
    env = dict(os.environ, PYTHONPATH=f'{root}/src')
    r = subprocess.run(['/venv/bin/python', str(pathlib.Path(d) / 'demo.py'), root], capture_output=True, text=True,
                       env=env, cwd=root, timeout=900)
    return r.returncode, (r.stdout + r.stderr)[-400:]


def confirm(d):
    w = scratch()
    try:
        clean_rc, clean_out = run_demo(d, w)
        r = sh(f'git -C {w} apply {d}/patch.diff')
        if r.returncode != 0:
            return {'applies': False, 'error': r.stderr[-300:]}
        comp = sh(f'cd {w} && git diff --name-only | grep .py$ | xargs -r /venv/bin/python -m py_compile')
        bad_rc, bad_out = run_demo(d, w)
        return {'applies': True, 'compiles': comp.returncode == 0, 'demo_clean_exit': clean_rc, 'demo_patched_exit': bad_rc,
                'confirmed': clean_rc == 0 and bad_rc != 0, 'patched_output_tail': bad_out[-200:]}
    finally:
        drop(w)


def detect(d):
    man = json.loads((VERIF / 'MANIFEST.json').read_text())
    r = sh(f'git -C /repo apply {d}/patch.diff')
    if r.returncode != 0:
        return {'applies': False, 'error': r.stderr[-300:]}
    fired = {}
    try:
        env = dict(os.environ, SA_EVIDENCE_DIR=tempfile.mkdtemp(prefix='seed-ev-'))
        for c in man['checks']:
            p = subprocess.run(c['quick_cmd'], shell=True, capture_output=True, text=True, env=env, cwd=str(VERIF))
            if p.returncode != 0:
                lines = [l for l in p.stdout.splitlines() if l.startswith(('FINDING', 'ANALYSIS-ERROR'))]
                fired[c['property_id']] = {'exit': p.returncode, 'reports': [l[:300] for l in lines[:4]]}
    finally:
        sh('git -C /repo checkout -- .')
    return {'applies': True, 'fired': fired}


def suite(d):
    w = scratch()
    try:
        r = sh(f'git -C {w} apply {d}/patch.diff')
        if r.returncode != 0:
            return {'applies': False}
        p = sh(f'cd {w} && flock /root/suite.lock env PYTHONPATH={w}/src /venv/bin/python -m pytest -q -p no:cacheprovider '
               f'--timeout=900 --continue-on-collection-errors 2>&1 | tail -5')
        return {'suite_tail': p.stdout[-500:]}
    finally:
        drop(w)


if __name__ == '__main__':
    mode, d = sys.argv[1], os.path.abspath(sys.argv[2])
    res = {'confirm': confirm, 'detect': detect, 'suite': suite}[mode](d)
    print(json.dumps(res, indent=1))
