#!/venv/bin/python
"""mk_inventory.py [repo root]: write sa/baseline_inventory.json - the private function names (with structural fingerprints) of the
tree on which the rule instances were confirmed.  Run by hand after confirming a new tree; never run by a check."""
import json, pathlib, subprocess, sys
VERIF = pathlib.Path(__file__).resolve().parents[1]
sys.path.insert(0, str(VERIF / 'sa'))
from engine import normalize  # noqa: E402
from engine.repo import Repo  # noqa: E402
root = pathlib.Path(sys.argv[1] if len(sys.argv) > 1 else '/repo')
repo = Repo(root, normalise=False)
head = subprocess.run(['git', '-C', str(root), 'rev-parse', 'HEAD'], capture_output=True, text=True).stdout.strip()
inv = normalize.make_inventory(repo.modules)
out = VERIF / 'sa' / 'baseline_inventory.json'
consts = normalize.constant_names(repo.modules)
out.write_text(json.dumps({'confirmed_tree': head, 'scopes': inv, 'constants': consts, 'kw_callees': normalize.keyword_callees(repo.modules)}, indent=0, sort_keys=True) + '\n')
print(out, len(inv), 'scopes', sum(len(v) for v in inv.values()), 'private functions')
