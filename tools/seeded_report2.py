#!/venv/bin/python
"""seeded_report2.py: write seeded/REPORT.md and the detected_by field of every meta.json from seeded/detection.json (written by
tools/seeded_quick.py --all: every seeded change applied to its own scratch copy of /repo HEAD, every registered quick check
run against the copy).  tools/seeded_report.py does the same with the patches applied to /repo itself (one after the other)."""
import json, pathlib
VERIF = pathlib.Path(__file__).resolve().parents[1]
det = json.loads((VERIF / 'seeded' / 'detection.json').read_text())
rows, own_miss, any_miss = [], [], []
for d in sorted(x for x in (VERIF / 'seeded').glob('C*-*') if x.is_dir()):
    meta = json.loads((d / 'meta.json').read_text())
    r = det.get(d.name)
    fired = r if isinstance(r, dict) else {}
    meta['detected_by'] = fired
    (d / 'meta.json').write_text(json.dumps(meta, indent=1))
    own = meta['breaks_property'] in fired
    note = ''
    if meta.get('superseded'):
        note = ' (superseded: ' + meta['superseded'][:120] + ' ...)'
    elif not fired:
        any_miss.append(d.name)
    elif not own:
        own_miss.append(d.name)
    rows.append((meta['id'], meta['breaks_property'], (meta.get('needs_to_manifest') or '').replace('|', '/').replace('\n', ' ')[:260],
                 ('; '.join(f"{k} ({', '.join(v)})" for k, v in sorted(fired.items())) or 'NOT DETECTED') + note))
out = ['# Seeded changes and the checks that report them', '',
       'Each change was produced by an independent sub-agent that saw only the property text (seven rounds: a,b / c,d / e,f / g,h / i,j / k,l / m,n; first-sight numbers per round in DESIGN.md section 9),',
       'confirmed here (demo fails with the patch, passes without; patch compiles) and then run against every registered quick',
       'check (scratch copy of /repo HEAD per change, `tools/seeded_quick.py --all`).', '',
       f'{len(rows)} changes; not reported by any check: {any_miss or "none"}; reported, but not by the check of the property the '
       f'change was made for: {own_miss or "none"}.', '',
       '| id | breaks | needs to manifest | reported by (rule) |', '|---|---|---|---|']
out += ['| %s | %s | %s | %s |' % r for r in rows]
(VERIF / 'seeded' / 'REPORT.md').write_text('\n'.join(out) + '\n')
print(len(rows), 'seeded changes; not detected:', any_miss, '; not by own property:', own_miss)
