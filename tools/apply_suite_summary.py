#!/venv/bin/python
"""Copy the full-suite results recorded in /root/suites_summary.txt into seeded/*/meta.json."""
import json, pathlib, re
VERIF = pathlib.Path(__file__).resolve().parents[1]
for line in pathlib.Path('/root/suites_summary.txt').read_text().splitlines():
    m = re.match(r'(C\d\d-[ab]): (.*)', line)
    if m:
        p = VERIF / 'seeded' / m.group(1) / 'meta.json'
        meta = json.loads(p.read_text())
        meta['full_suite_with_patch'] = m.group(2).strip('= ').strip()
        p.write_text(json.dumps(meta, indent=1))
        print(m.group(1), meta['full_suite_with_patch'])
