#!/venv/bin/python
"""seeded_quick.py: development-time variant of seeded_report.py - each seeded change is applied to its own scratch copy of
/repo HEAD (src + tutorial, outside /repo and /verif, removed afterwards) and the quick check of the property it breaks (plus,
with --all, every other quick check) is run against the copy with SA_REPO_ROOT, 8 in parallel.  Does not touch /repo and does
not rewrite REPORT.md / meta.json: the registered protocol (apply to /repo, run, undo) is tools/seeded_report.py."""
import json, os, pathlib, shutil, subprocess, sys, tempfile
from concurrent.futures import ProcessPoolExecutor
VERIF = pathlib.Path(__file__).resolve().parents[1]
man = json.loads((VERIF / 'MANIFEST.json').read_text())
ALL = '--all' in sys.argv


def one(d):
    d = pathlib.Path(d)
    meta = json.loads((d / 'meta.json').read_text())
    w = tempfile.mkdtemp(prefix='seedq-')
    try:
        subprocess.run(f'git -C /repo archive HEAD src tutorial | tar -x -C {w}', shell=True, check=True)
        r = subprocess.run(f'cd {w} && patch -p1 -s < {d}/patch.diff', shell=True, capture_output=True, text=True)
        if r.returncode != 0:
            return d.name, 'PATCH DOES NOT APPLY'
        ev = tempfile.mkdtemp(prefix='seedq-ev-')
        env = dict(os.environ, SA_REPO_ROOT=w, SA_EVIDENCE_DIR=ev)
        fired = {}
        for c in man['checks']:
            if not ALL and c['property_id'] != meta['breaks_property']:
                continue
            p = subprocess.run(c['quick_cmd'], shell=True, capture_output=True, text=True, env=env, cwd=str(VERIF))
            if p.returncode != 0:
                rules = sorted({l.split('rule=')[1].split()[0] for l in p.stdout.splitlines() if l.startswith('FINDING') and 'rule=' in l})
                fired[c['property_id']] = rules or [f'exit {p.returncode}: ' + (p.stdout.strip().splitlines() or [''])[-1][:120]]
        shutil.rmtree(ev, ignore_errors=True)
        return d.name, fired
    finally:
        shutil.rmtree(w, ignore_errors=True)


if __name__ == '__main__':
    dirs = sorted(str(x) for x in (VERIF / 'seeded').glob('C*-*') if x.is_dir())
    with ProcessPoolExecutor(7) as ex:
        res = dict(ex.map(one, dirs))
    miss = [k for k, v in res.items() if not v or v == 'PATCH DOES NOT APPLY']
    own_miss = []
    for k in sorted(res):
        meta = json.loads((VERIF / 'seeded' / k / 'meta.json').read_text())
        own = isinstance(res[k], dict) and meta['breaks_property'] in res[k]
        if not own and not meta.get('superseded'):
            own_miss.append(k)
        print(k, res[k] or 'NOT DETECTED', '' if own else ('(superseded)' if meta.get('superseded') else '(NOT BY ITS OWN PROPERTY)'))
    print(len(res), 'seeded changes;', len(miss), 'not detected:', miss)
    print('not reported by the check of the property it breaks:', own_miss)
    (VERIF / 'seeded' / 'detection.json').write_text(json.dumps(res, indent=1, sort_keys=True))
