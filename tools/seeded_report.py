#!/venv/bin/python
"""Re-run every claimed quick check against every seeded change (applied to /repo, undone afterwards) and write
seeded/REPORT.md plus the detected_by field of each meta.json."""
import json, pathlib, subprocess, sys
VERIF = pathlib.Path(__file__).resolve().parents[1]
rows = []
for d in sorted((VERIF / 'seeded').glob('*/')):
    meta = json.loads((d / 'meta.json').read_text())
    p = subprocess.run(['/venv/bin/python', str(VERIF / 'tools' / 'seeded.py'), 'detect', str(d)], capture_output=True, text=True)
    res = json.loads(p.stdout)
    if not res.get('applies'):
        rows.append((meta['id'], meta['breaks_property'], 'PATCH DOES NOT APPLY to the current /repo', ''))
        meta['detected_by'] = {'error': 'patch does not apply to current /repo HEAD'}
    else:
        det = {}
        for prop, v in res['fired'].items():
            det[prop] = sorted({r.split('rule=')[1].split()[0] for r in v['reports'] if 'rule=' in r}) or ['analysis-error']
        meta['detected_by'] = det
        rows.append((meta['id'], meta['breaks_property'], meta['needs_to_manifest'],
                     '; '.join(f"{k} ({', '.join(v)})" for k, v in det.items()) or 'NOT DETECTED'))
    (d / 'meta.json').write_text(json.dumps(meta, indent=1))
out = ['# Seeded changes and the checks that report them', '',
       'Each change was produced by an independent sub-agent that saw only the property text, confirmed here (demo fails with',
       'the patch, passes without; patch compiles) and then run against every registered quick check.', '',
       '| id | breaks | needs to manifest | reported by (rule) |', '|---|---|---|---|']
out += ['| %s | %s | %s | %s |' % r for r in rows]
(VERIF / 'seeded' / 'REPORT.md').write_text('\n'.join(out) + '\n')
bad = [r for r in rows if 'NOT DETECTED' in r[3] or 'DOES NOT APPLY' in r[2]]
print(len(rows), 'seeded changes;', len(bad), 'not detected / not applicable:', [b[0] for b in bad])
