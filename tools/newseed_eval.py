#!/venv/bin/python
"""newseed_eval.py <dir with Nxx/mK/patch.diff ...>: quick preview - apply each candidate patch to a scratch copy of /repo HEAD and
run all quick checks against it (SA_REPO_ROOT); prints which properties fire.  Does not confirm demos (keep_seeded.py does)."""
import json, os, pathlib, shutil, subprocess, sys, tempfile
from concurrent.futures import ProcessPoolExecutor
VERIF = pathlib.Path(__file__).resolve().parents[1]
man = json.loads((VERIF / 'MANIFEST.json').read_text())


def one(d):
    d = pathlib.Path(d)
    w = tempfile.mkdtemp(prefix='seedq-')
    try:
        subprocess.run(f'git -C /repo archive HEAD src tutorial | tar -x -C {w}', shell=True, check=True)
        r = subprocess.run(f'cd {w} && patch -p1 -s < {d}/patch.diff', shell=True, capture_output=True, text=True)
        if r.returncode != 0:
            return str(d), 'PATCH DOES NOT APPLY'
        ev = tempfile.mkdtemp(prefix='seedq-ev-')
        env = dict(os.environ, SA_REPO_ROOT=w, SA_EVIDENCE_DIR=ev)
        fired = {}
        for c in man['checks']:
            p = subprocess.run(c['quick_cmd'], shell=True, capture_output=True, text=True, env=env, cwd=str(VERIF))
            if p.returncode != 0:
                rules = sorted({l.split('rule=')[1].split()[0] for l in p.stdout.splitlines() if l.startswith('FINDING') and 'rule=' in l})
                fired[c['property_id']] = rules or [f'exit {p.returncode}: ' + (p.stdout.strip().splitlines() or [''])[-1][:160]]
        shutil.rmtree(ev, ignore_errors=True)
        return str(d), fired
    finally:
        shutil.rmtree(w, ignore_errors=True)


if __name__ == '__main__':
    base = pathlib.Path(sys.argv[1])
    dirs = sorted(str(p.parent) for p in base.glob('[NMPQS]*/m*/patch.diff'))
    with ProcessPoolExecutor(8) as ex:
        res = dict(ex.map(one, dirs))
    for k in sorted(res):
        print(k.replace(str(base) + '/', ''), res[k] or 'NOT DETECTED')
