#!/venv/bin/python
"""refactor_eval.py [name-prefix ...]: false-alarm measurement.

Each /verif/refactored/<Cxx-rK>/patch.diff is a behaviour-preserving refactoring written by a sub-agent that saw only the
property text.  Apply each to a scratch worktree of /repo HEAD (outside /repo and /verif, removed afterwards), run every
claimed quick check against it (SA_REPO_ROOT) and list the checks that raise an alarm (exit 1) or cannot analyse (exit 2).
Writes refactored/REPORT.md when run without arguments."""
import json, os, pathlib, subprocess, sys, tempfile
from concurrent.futures import ProcessPoolExecutor
VERIF = pathlib.Path(__file__).resolve().parents[1]
man = json.loads((VERIF / 'MANIFEST.json').read_text())


import re


def counts(env=None):
    out = {}
    for c in man['checks']:
        p = subprocess.run(c['quick_cmd'], shell=True, capture_output=True, text=True, env=env, cwd=str(VERIF))
        m = re.search(r'tier=quick: (\d+) obligations', p.stdout)
        out[c['property_id']] = int(m.group(1)) if m else None
    return out


BASE = None


def one(d):
    d = pathlib.Path(d)
    w = tempfile.mkdtemp(prefix='refwt-')
    subprocess.run(f'git -C /repo worktree add -f --detach {w} HEAD -q', shell=True, check=True)
    try:
        r = subprocess.run(f'git -C {w} apply {d}/patch.diff || git -C {w} apply --3way {d}/patch.diff', shell=True, capture_output=True, text=True)
        if r.returncode != 0:
            return d.name, {'applies': False, 'err': r.stderr[-200:]}
        ev = tempfile.mkdtemp(prefix='ref-ev-')
        env = dict(os.environ, SA_REPO_ROOT=w, SA_EVIDENCE_DIR=ev)
        alarms = {}
        fewer = {}
        norm = []
        for c in man['checks']:
            p = subprocess.run(c['quick_cmd'], shell=True, capture_output=True, text=True, env=env, cwd=str(VERIF))
            for l in p.stdout.splitlines():
                if l.startswith('NORMALISED') and l not in norm:
                    norm.append(l)
            if p.returncode != 0:
                lines = [l[:300] for l in p.stdout.splitlines() if l.startswith(('FINDING', 'ANALYSIS-ERROR'))]
                alarms[c['property_id']] = {'exit': p.returncode, 'lines': lines[:4]}
            else:
                m = re.search(r'tier=quick: (\d+) obligations', p.stdout)
                base = BASE.get(c['property_id']) if BASE else None
                if m and base is not None and int(m.group(1)) < base:
                    fewer[c['property_id']] = f'{m.group(1)} < {base}'
        subprocess.run(['rm', '-rf', ev])
        return d.name, {'applies': True, 'alarms': alarms, 'normalised': norm, 'fewer': fewer}
    finally:
        subprocess.run(f'git -C /repo worktree remove --force {w}', shell=True)


def main():
    sel = sys.argv[1:]
    dirs = sorted(str(d) for d in (VERIF / 'refactored').glob("C*-[rstuvw]*") if not sel or any(d.name.startswith(s) for s in sel))
    global BASE
    BASE = counts(dict(os.environ, SA_EVIDENCE_DIR=tempfile.mkdtemp(prefix='ref-ev-')))
    with ProcessPoolExecutor(9) as ex:
        res = dict(ex.map(one, dirs))
    n_alarm = 0
    lines = []
    for name in sorted(res):
        v = res[name]
        if not v.get('applies'):
            lines.append(f'| {name} | patch does not apply to HEAD | |')
            continue
        al = v['alarms']
        if al:
            n_alarm += 1
        print(name, 'SILENT' if not al else {p: (a['exit'], a['lines'][:2]) for p, a in al.items()}, v['normalised'],
              ('FEWER OBLIGATIONS ' + str(v['fewer'])) if v.get('fewer') else '')
        lines.append(f"| {name} | {'silent' if not al else ', '.join(f'{p} (exit {a[chr(101)+chr(120)+chr(105)+chr(116)]})' for p, a in al.items())} | "
                     f"{'; '.join(x.replace('NORMALISED ', '') for x in v['normalised'])}"
                     f"{(' fewer obligations than on HEAD: ' + str(v['fewer'])) if v.get('fewer') else ''} |")
    print(f'{len(res)} refactorings, {n_alarm} with an alarm or analysis error')
    if not sel:
        head = subprocess.run('git -C /repo rev-parse --short HEAD', shell=True, capture_output=True, text=True).stdout.strip()
        (VERIF / 'refactored' / 'REPORT.md').write_text(
            f'# Behaviour-preserving refactorings vs. the quick checks (repo HEAD {head})\n\n'
            f'{len(res)} refactorings, {n_alarm} with an alarm or analysis error.\n\n'
            '| refactoring | quick checks | normalisation applied |\n|---|---|---|\n' + '\n'.join(lines) + '\n')


if __name__ == '__main__':
    main()
