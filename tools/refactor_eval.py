#!/venv/bin/python
"""refactor_eval.py <dir with rK/patch.diff ...>: apply each behaviour-preserving patch to a scratch worktree of /repo HEAD,
run every claimed quick check against it (SA_REPO_ROOT) and list the checks that raise an alarm or cannot analyse."""
import json, os, pathlib, subprocess, sys, tempfile
VERIF = pathlib.Path(__file__).resolve().parents[1]
man = json.loads((VERIF / 'MANIFEST.json').read_text())
base = pathlib.Path(sys.argv[1])
out = {}
for d in sorted(base.glob('r*/')):
    w = tempfile.mkdtemp(prefix='refwt-')
    subprocess.run(f'git -C /repo worktree add -f --detach {w} HEAD -q', shell=True, check=True)
    try:
        r = subprocess.run(f'git -C {w} apply {d}/patch.diff', shell=True, capture_output=True, text=True)
        if r.returncode != 0:
            out[d.name] = {'applies': False, 'err': r.stderr[-200:]}
            continue
        env = dict(os.environ, SA_REPO_ROOT=w, SA_EVIDENCE_DIR=tempfile.mkdtemp(prefix='ref-ev-'))
        alarms = {}
        for c in man['checks']:
            p = subprocess.run(c['quick_cmd'], shell=True, capture_output=True, text=True, env=env, cwd=str(VERIF))
            if p.returncode != 0:
                lines = [l[:260] for l in p.stdout.splitlines() if l.startswith(('FINDING', 'ANALYSIS-ERROR'))]
                alarms[c['property_id']] = {'exit': p.returncode, 'lines': lines[:3]}
        out[d.name] = {'applies': True, 'alarms': alarms}
    finally:
        subprocess.run(f'git -C /repo worktree remove --force {w}', shell=True)
print(json.dumps(out, indent=1))
