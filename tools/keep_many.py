#!/venv/bin/python
"""keep_many.py <out dir> <prefix letter> <suffix1> <suffix2>: import the seeded changes of one round.

<out dir>/<P>NN/m1|m2/{patch.diff,demo.py,notes.md} -> /verif/seeded/CNN-<suffix1|suffix2>/ ; every change is confirmed here
(demo passes on a scratch worktree of /repo HEAD and fails with the patch; patch compiles) - in parallel, on scratch worktrees
outside /repo and /verif that are removed afterwards.  Detection is recorded by tools/seeded_quick.py / seeded_report.py."""
import json, pathlib, shutil, subprocess, sys
from concurrent.futures import ThreadPoolExecutor
VERIF = pathlib.Path(__file__).resolve().parents[1]
out, letter, s1, s2 = pathlib.Path(sys.argv[1]), sys.argv[2], sys.argv[3], sys.argv[4]


def one(job):
    src, sid, prop = job
    dst = VERIF / 'seeded' / sid
    dst.mkdir(parents=True, exist_ok=True)
    for f in ('patch.diff', 'demo.py', 'notes.md'):
        if (src / f).exists():
            shutil.copyfile(src / f, dst / f)
    p = subprocess.run(['/venv/bin/python', str(VERIF / 'tools' / 'seeded.py'), 'confirm', str(dst)], capture_output=True, text=True)
    try:
        conf = json.loads(p.stdout)
    except Exception:  # noqa: BLE001
        conf = {'error': (p.stdout + p.stderr)[-300:]}
    notes = (src / 'notes.md').read_text(errors='replace') if (src / 'notes.md').exists() else ''
    needs = ' '.join(l.strip() for l in notes.splitlines() if any(w in l.lower() for w in ('trigger', 'needs', 'manifest')))[:400]
    meta = {'id': sid, 'breaks_property': prop, 'needs_to_manifest': needs,
            'origin': 'independent sub-agent given only the property text and a scratch worktree',
            'confirmed_by_me': {'patch_applies_and_compiles': bool(conf.get('applies') and conf.get('compiles')),
                                'demo_exit_clean_tree': conf.get('demo_clean_exit'),
                                'demo_exit_with_patch': conf.get('demo_patched_exit'),
                                'commands': ['tools/seeded.py confirm <dir> (scratch worktree of /repo HEAD, demo with PYTHONPATH=<wt>/src)']},
            'full_suite_with_patch': 'pending', 'detected_by': {}}
    (dst / 'meta.json').write_text(json.dumps(meta, indent=1))
    return sid, bool(conf.get('confirmed')), conf


jobs = []
for d in sorted(out.glob(f'{letter}[0-9][0-9]')):
    nn = d.name[1:]
    for m, s in (('m1', s1), ('m2', s2)):
        if (d / m / 'patch.diff').exists() and (d / m / 'demo.py').exists():
            jobs.append((d / m, f'C{nn}-{s}', f'C{nn}'))
with ThreadPoolExecutor(6) as ex:
    for sid, ok, conf in ex.map(one, jobs):
        print(sid, 'confirmed' if ok else f'NOT CONFIRMED {conf}')
