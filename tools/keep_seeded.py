#!/venv/bin/python
"""keep_seeded.py <src dir> <seed id> <property> <needs...>: confirm, detect, store under /verif/seeded/<id>/."""
import json, pathlib, shutil, subprocess, sys
VERIF = pathlib.Path(__file__).resolve().parents[1]
src, sid, prop = pathlib.Path(sys.argv[1]), sys.argv[2], sys.argv[3]
needs = ' '.join(sys.argv[4:])
dst = VERIF / 'seeded' / sid
dst.mkdir(parents=True, exist_ok=True)
for f in ('patch.diff', 'demo.py'):
    shutil.copyfile(src / f, dst / f)
if (src / 'notes.md').exists():
    shutil.copyfile(src / 'notes.md', dst / 'notes.md')
def run(mode):
    p = subprocess.run(['/venv/bin/python', str(VERIF / 'tools' / 'seeded.py'), mode, str(dst)], capture_output=True, text=True)
    return json.loads(p.stdout)
conf = run('confirm')
det = run('detect')
meta = {'id': sid, 'breaks_property': prop, 'needs_to_manifest': needs,
        'origin': 'independent sub-agent given only the property text and a scratch worktree',
        'confirmed_by_me': {'patch_applies_and_compiles': conf.get('applies') and conf.get('compiles'),
                            'demo_exit_clean_tree': conf.get('demo_clean_exit'),
                            'demo_exit_with_patch': conf.get('demo_patched_exit'),
                            'commands': ['tools/seeded.py confirm <dir> (scratch worktree of /repo HEAD, demo with PYTHONPATH=<wt>/src)',
                                         'tools/seeded.py detect <dir> (git -C /repo apply; all quick checks; git -C /repo checkout -- .)',
                                         'tools/seeded.py suite <dir> (full unedited suite in a scratch worktree)']},
        'full_suite_with_patch': 'pending',
        'detected_by': {k: [r.split(' at ')[0].replace('FINDING ', '') for r in v['reports']] for k, v in det.get('fired', {}).items()}}
(dst / 'meta.json').write_text(json.dumps(meta, indent=1))
print(sid, 'confirmed' if conf.get('confirmed') else 'NOT CONFIRMED', 'detected by', sorted(det.get('fired', {})) or 'NOBODY')
